#!/usr/bin/env python3
"""hard_decimals.py <binade_lo> <binade_hi> <samples per binade> <seed>  (offline helper, see tools/README.md)

Doubles whose 17-significant-digit decimal lies as close as possible to the midpoint between two doubles: the inputs
for which a decimal-to-binary conversion has the least slack (its rounding decision hangs on the last bits of the
power-of-five / power-of-ten tables). For every binade and every count of fractional digits (after stripping trailing
zeros) the few doubles with the smallest slack are printed as hex bit patterns."""
import random, struct, sys
from fractions import Fraction

lo, hi, n, seed = int(sys.argv[1]), int(sys.argv[2]), int(sys.argv[3]), int(sys.argv[4])
rng = random.Random(seed)
KEEP = 4
for e2 in range(lo, hi + 1):
    best = {}
    for _ in range(n):
        mant = rng.getrandbits(52)
        if rng.random() < 0.3:
            mant |= (0xFFFFF << 32)  # top of the binade: the smallest relative ulp
        bits = ((1023 + e2) << 52) | mant
        d = struct.unpack("<d", struct.pack("<Q", bits))[0]
        s = "%.16e" % d
        digits, exp10 = s.split("e")
        D = int(digits.replace(".", ""))
        q = int(exp10) - 16
        dec = Fraction(D) * (Fraction(10) ** q)
        m = (1 << 52) | mant
        val = Fraction(m) * (Fraction(2) ** (e2 - 52))
        ulp = Fraction(2) ** (e2 - 52)
        slack = Fraction(1, 2) - abs(dec - val) / ulp
        # fractional digits of the shortest form of these 17 digits
        t = str(D).rstrip("0")
        frac = max(0, len(t) - (int(exp10) + 1))
        b = best.setdefault(frac, [])
        b.append((slack, bits))
        if len(b) > 64:
            b.sort()
            del b[KEEP:]
    for frac in sorted(best):
        b = sorted(best[frac])[:KEEP]
        for slack, bits in b:
            print("%016x %d %d %.5f" % (bits, e2, frac, float(slack)))
