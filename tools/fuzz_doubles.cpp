#include <new>
#include <cstdint>
#include <cstring>
#include "Digit.hpp"
#include "StringStream.hpp"
extern "C" int LLVMFuzzerTestOneInput(const uint8_t *data, size_t size) {
    if (size < 8) return 0;
    double d; memcpy(&d, data, 8);
    if (!(d == d) || d - d != 0) return 0;
    using namespace Qentem;
    StringStream<char> ss;
    Digit::NumberToString(ss, d, Digit::RealFormatInfo{17U});
    QNumber64 n; SizeT offset = 0;
    (void)Digit::StringToNumber(n, ss.First(), offset, ss.Length());
    return 0;
}
