# Builds the qsim binaries from /repo's current working tree.
REPO      ?= /repo
B         := build
CXX_RT    := g++
CXX_W     := clang++
REPO_HDRS := $(wildcard $(REPO)/Include/*.hpp)
W_HDRS    := $(wildcard worlds/*.hpp) $(wildcard worlds/*.inc) sim/rt.hpp
RT_SRCS   := sim/rt_core.cpp sim/rt_main.cpp sim/rt_plan.cpp sim/rt_sym.cpp
SAN_RT_SRCS := sim/rt_san.cpp sim/rt_main.cpp sim/rt_plan.cpp sim/rt_sym.cpp
W_SRCS    := $(wildcard worlds/*_world.cpp)
WRAPS     := -Wl,--wrap=memcpy,--wrap=memmove,--wrap=memset,--wrap=__cxa_guard_acquire,--wrap=__cxa_guard_release,--wrap=__cxa_guard_abort,--wrap=pthread_mutex_lock,--wrap=pthread_mutex_unlock,--wrap=pthread_mutex_trylock

RT_FLAGS  := -std=c++17 -O2 -g -Wall -Wextra -Wno-unused-parameter -fno-omit-frame-pointer
W_COMMON  := -std=c++17 -g -Wall -Wextra -Wno-unused-parameter -fno-exceptions -DQENTEM_VERIF_SIM -I$(REPO)/Include
TRACE_FL  := -O1 -fno-builtin -fsanitize=thread -fsanitize-coverage=trace-pc-guard
SAN_FL    := -O1 -fsanitize=address,bounds,null,integer-divide-by-zero,return,unreachable -fno-sanitize-recover=all -fno-omit-frame-pointer -DQSIM_SAN

SIMD_sse2   := -DQENTEM_SSE2=1 -msse2
SIMD_scalar :=
SIMD_avx2   := -DQENTEM_AVX2=1 -mavx2
EXTRA_noesc := -DQENTEM_AUTO_ESCAPE_HTML=0

.PHONY: all setup quick thorough clean
all: quick
setup: quick
quick: $(B)/trace-sse2/qsim $(B)/san-sse2/qsim $(B)/opt-gcc-o3/qsim
thorough: quick $(B)/trace-scalar/qsim $(B)/trace-avx2/qsim $(B)/san-avx2/qsim $(B)/trace-sse2-noesc/qsim $(B)/opt-gcc-o2/qsim $(B)/opt-clang-o3/qsim

# ---- runtime objects (plain)
$(B)/rt/%.o: sim/%.cpp sim/rt.hpp sim/rt_int.hpp
	@mkdir -p $(dir $@)
	$(CXX_RT) $(RT_FLAGS) -c $< -o $@

# ---- trace flavours
define TRACE_RULES
$(B)/trace-$(1)/%.o: worlds/%.cpp $$(REPO_HDRS) $$(W_HDRS)
	@mkdir -p $$(dir $$@)
	$$(CXX_W) $$(W_COMMON) $$(TRACE_FL) $(2) -c $$< -o $$@
$(B)/trace-$(1)/qsim: $$(patsubst sim/%.cpp,$(B)/rt/%.o,$$(RT_SRCS)) $$(patsubst worlds/%.cpp,$(B)/trace-$(1)/%.o,$$(W_SRCS))
	$$(CXX_W) -no-pie -o $$@ $$^ $$(WRAPS) -lpthread
endef
$(eval $(call TRACE_RULES,sse2,$(SIMD_sse2)))
$(eval $(call TRACE_RULES,scalar,$(SIMD_scalar)))
$(eval $(call TRACE_RULES,avx2,$(SIMD_avx2)))
$(eval $(call TRACE_RULES,sse2-noesc,$(SIMD_sse2) $(EXTRA_noesc)))

# ---- sanitizer twins
define SAN_RULES
$(B)/san-$(1)/%.o: worlds/%.cpp $$(REPO_HDRS) $$(W_HDRS)
	@mkdir -p $$(dir $$@)
	$$(CXX_W) $$(W_COMMON) $$(SAN_FL) $(2) -c $$< -o $$@
$(B)/san-$(1)/rt_%.o: sim/rt_%.cpp sim/rt.hpp sim/rt_int.hpp
	@mkdir -p $$(dir $$@)
	$$(CXX_W) -std=c++17 -O1 -g -fsanitize=address -fno-omit-frame-pointer -DQSIM_SAN -c $$< -o $$@
$(B)/san-$(1)/qsim: $$(patsubst sim/%.cpp,$(B)/san-$(1)/%.o,$$(SAN_RT_SRCS)) $$(patsubst worlds/%.cpp,$(B)/san-$(1)/%.o,$$(W_SRCS))
	$$(CXX_W) -no-pie -fsanitize=address,undefined -o $$@ $$^ -lpthread
endef
$(eval $(call SAN_RULES,sse2,$(SIMD_sse2)))
$(eval $(call SAN_RULES,avx2,$(SIMD_avx2)))

# ---- optimiser twins: the same worlds and the same simulated heap, the library compiled without any instrumentation
# at the optimisation level releases are built with. What the optimiser is entitled to assume (strict aliasing,
# object lifetimes) is part of the environment a header-only library meets; only the heap oracles (double / invalid
# release, redzones, leaks), the traps and the reference models decide here, there is no access monitor.
define OPT_RULES
$(B)/opt-$(1)/%.o: worlds/%.cpp $$(REPO_HDRS) $$(W_HDRS)
	@mkdir -p $$(dir $$@)
	$(2) $$(W_COMMON) $(3) -fno-omit-frame-pointer -DQSIM_OPT -c $$< -o $$@
$(B)/opt-$(1)/qsim: $$(patsubst sim/%.cpp,$(B)/rt/%.o,$$(RT_SRCS)) $$(patsubst worlds/%.cpp,$(B)/opt-$(1)/%.o,$$(W_SRCS))
	$(2) -no-pie -o $$@ $$^ $$(WRAPS) -lpthread
endef
$(eval $(call OPT_RULES,gcc-o3,g++,-O3 $(SIMD_sse2)))
$(eval $(call OPT_RULES,gcc-o2,g++,-O2 $(SIMD_sse2)))
$(eval $(call OPT_RULES,clang-o3,clang++,-O3 $(SIMD_avx2)))

clean:
	rm -rf $(B)
