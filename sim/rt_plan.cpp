// Plan text (de)serialisation. One item per line; strings are hex encoded so any byte survives.
#include "rt.hpp"

#include <sstream>

namespace qsim {

std::string hex_encode(const std::string &s) {
    static const char *d = "0123456789abcdef";
    std::string        o;
    o.reserve(s.size() * 2 + 1);
    for (unsigned char c : s) {
        o.push_back(d[c >> 4]);
        o.push_back(d[c & 15]);
    }
    if (o.empty()) o = "-";
    return o;
}

std::string hex_decode(const std::string &s) {
    std::string o;
    if (s == "-") return o;
    auto v = [](char c) -> int {
        if (c >= '0' && c <= '9') return c - '0';
        if (c >= 'a' && c <= 'f') return c - 'a' + 10;
        if (c >= 'A' && c <= 'F') return c - 'A' + 10;
        return 0;
    };
    for (size_t i = 0; i + 1 < s.size(); i += 2) o.push_back((char)((v(s[i]) << 4) | v(s[i + 1])));
    return o;
}

std::string Plan::to_text() const {
    std::ostringstream o;
    o << "world " << world << "\n";
    o << "seed " << seed << "\n";
    for (auto &kv : cfg) o << "cfg " << kv.first << " " << kv.second << "\n";
    for (auto &op : ops) {
        if (!op.enabled) continue;
        o << "op " << op.kind;
        for (int i = 0; i < 6; i++) o << " " << op.a[i];
        o << " " << op.s.size();
        for (auto &st : op.s) o << " " << hex_encode(st);
        o << "\n";
    }
    if (sched_explicit) {
        o << "sched";
        for (auto &sl : sched) o << " " << sl.task << ":" << sl.steps;
        o << "\n";
    }
    o << "end\n";
    return o.str();
}

bool Plan::from_text(const std::string &text) {
    std::istringstream in(text);
    std::string        line;
    *this = Plan{};
    bool ended = false;
    while (std::getline(in, line)) {
        std::istringstream ls(line);
        std::string        tag;
        ls >> tag;
        if (tag == "world") {
            ls >> world;
        } else if (tag == "seed") {
            ls >> seed;
        } else if (tag == "cfg") {
            std::string k;
            int64_t     v;
            ls >> k >> v;
            cfg[k] = v;
        } else if (tag == "op") {
            Op op;
            ls >> op.kind;
            for (int i = 0; i < 6; i++) ls >> op.a[i];
            size_t n = 0;
            ls >> n;
            for (size_t i = 0; i < n; i++) {
                std::string h;
                ls >> h;
                op.s.push_back(hex_decode(h));
            }
            ops.push_back(op);
        } else if (tag == "sched") {
            sched_explicit = true;
            std::string item;
            while (ls >> item) {
                auto  p = item.find(':');
                Slice sl;
                sl.task  = atoi(item.substr(0, p).c_str());
                sl.steps = (uint32_t)strtoul(item.substr(p + 1).c_str(), nullptr, 10);
                sched.push_back(sl);
            }
        } else if (tag == "end") {
            ended = true;
            break;
        }
    }
    return ended && !world.empty();
}

} // namespace qsim
