// qsim command line: search / exec / gen / shrink / symbolize
#include "rt_int.hpp"

#include <algorithm>
#include <chrono>
#include <cstdio>
#include <cstdlib>
#include <fstream>
#include <set>
#include <sstream>
#include <sys/wait.h>
#include <unistd.h>

namespace qsim {

static std::vector<const World *> &worlds() {
    static std::vector<const World *> w;
    return w;
}
void register_world(const World *w) {
    worlds().push_back(w);
}
const World *find_world(const std::string &name) {
    for (auto *w : worlds())
        if (name == w->name) return w;
    return nullptr;
}

static double now_s() {
    using namespace std::chrono;
    return duration<double>(steady_clock::now().time_since_epoch()).count();
}

// defined by the worlds of the flavour (they know how the library was compiled): how many times more instrumented
// accesses the same work takes in this build than in the SSE2 build the budgets were measured with (scalar byte loops: 16)
extern "C" uint64_t qsim_step_scale() __attribute__((weak));

static RunCfg cfg_from_plan(const Plan &p) {
    RunCfg c;
    c.placement   = (int)p.get("heap_place", 0);
    c.fill        = (int)p.get("heap_fill", 0);
    c.heap_seed   = derive(p.seed, "heap");
    c.step_budget = (uint64_t)p.get("step_budget", 200000000LL);
    if (qsim_step_scale != nullptr) c.step_budget *= qsim_step_scale();
    c.soft_budget = p.get("soft_budget", 0) != 0;
    return c;
}

struct ExecResult {
    RunStats stats;
    bool     nontrivial{false};
};

static ExecResult execute_plan(Plan &plan, uint64_t index) {
    ExecResult   r;
    const World *w = find_world(plan.world);
    if (!w) {
        fprintf(stderr, "qsim: unknown world '%s'\n", plan.world.c_str());
        _exit(2);
    }
    set_current_run_info(index, plan.seed, plan.world.c_str());
    run_begin(cfg_from_plan(plan));
    set_exact_fit(plan.get("exact_fit", 0) != 0);
    alarm((unsigned)plan.get("wall_cap_s", 20));
    r.nontrivial = w->execute(plan);
    alarm(0);
    run_end(r.stats);
    return r;
}

static std::string json_escape(const std::string &s) {
    std::string o;
    for (unsigned char c : s) {
        if (c == '"' || c == '\\') {
            o.push_back('\\');
            o.push_back((char)c);
        } else if (c < 0x20 || c >= 0x7f) {
            char b[8];
            snprintf(b, sizeof b, "\\u%04x", c);
            o += b;
        } else
            o.push_back((char)c);
    }
    return o;
}

static std::string arg(int argc, char **argv, const char *name, const char *dflt) {
    for (int i = 2; i + 1 < argc; i++)
        if (strcmp(argv[i], name) == 0) return argv[i + 1];
    return dflt;
}
static bool flag(int argc, char **argv, const char *name) {
    for (int i = 2; i < argc; i++)
        if (strcmp(argv[i], name) == 0) return true;
    return false;
}

// --set key=value (repeatable): overrides of the generated swarm configuration (e.g. the C16 check forces the
// quarantine placement so that lifetime errors are exact)
static void apply_overrides(int argc, char **argv, Plan &plan) {
    for (int i = 2; i + 1 < argc; i++) {
        if (strcmp(argv[i], "--set") != 0) continue;
        std::string kv = argv[i + 1];
        size_t      eq = kv.find('=');
        if (eq == std::string::npos) continue;
        plan.cfg[kv.substr(0, eq)] = strtoll(kv.c_str() + eq + 1, nullptr, 10);
    }
}

static std::string read_file(const std::string &path) {
    std::ifstream     f(path, std::ios::binary);
    std::stringstream ss;
    ss << f.rdbuf();
    return ss.str();
}

// ---------------------------------------------------------------------------------------------
static int cmd_search(int argc, char **argv) {
    const std::string wname  = arg(argc, argv, "--world", "");
    const uint64_t    master = strtoull(arg(argc, argv, "--master", "1").c_str(), nullptr, 10);
    uint64_t          start  = strtoull(arg(argc, argv, "--start", "0").c_str(), nullptr, 10);
    const uint64_t    stride = strtoull(arg(argc, argv, "--stride", "1").c_str(), nullptr, 10);
    const uint64_t    count  = strtoull(arg(argc, argv, "--count", "1000").c_str(), nullptr, 10);
    const int         tier   = atoi(arg(argc, argv, "--tier", "0").c_str());
    const double      time_s = atof(arg(argc, argv, "--time-s", "1e9").c_str());
    const std::string prefix = arg(argc, argv, "--out-prefix", "");
    const World      *w      = find_world(wname);
    if (!w) {
        fprintf(stderr, "qsim: unknown world '%s'\n", wname.c_str());
        return 2;
    }
    runtime_init();
    double                          t0 = now_s();
    uint64_t                        runs = 0, nontriv = 0, steps = 0, allocs = 0, frees = 0, switches = 0, nviol_runs = 0;
    uint64_t                        max_hwm = 0, max_peak = 0;
    std::vector<uint64_t>           hashes;
    std::set<uint64_t>              il_hashes;
    std::map<std::string, uint64_t> cfg_counts;
    std::vector<std::string>        samples;
    uint64_t                        i      = start;
    uint64_t                        last_i = start;
    FILE                           *hf     = prefix.empty() ? nullptr : fopen((prefix + ".hashes").c_str(), "wb");
    FILE                           *obsf   = prefix.empty() ? nullptr : fopen((prefix + ".obs").c_str(), "wb");
    for (uint64_t k = 0; k < count; k++, i += stride) {
        if (now_s() - t0 > time_s) break;
        Plan plan;
        plan.world = wname;
        plan.seed  = run_seed(master, wname.c_str(), i);
        plan.cfg["run_index"] = (int64_t)i; // enumerating worlds derive their case from the index
        w->generate(plan, plan.seed, tier);
        apply_overrides(argc, argv, plan);
        std::string before_text;
        if (samples.size() < 3 && (k % 7) == 0) before_text = plan.to_text();
        ExecResult r = execute_plan(plan, i);
        last_i       = i;
        runs++;
        steps += r.stats.steps;
        allocs += r.stats.allocs;
        frees += r.stats.frees;
        switches += r.stats.switches;
        if (r.stats.stack_hwm > max_hwm) max_hwm = r.stats.stack_hwm;
        if (r.stats.peak_live > max_peak) max_peak = r.stats.peak_live;
        if (!r.stats.violations.empty()) nviol_runs++;
        if (r.nontrivial) {
            nontriv++;
            if (hf) fwrite(&r.stats.hash, 8, 1, hf);
        }
        if (obsf) {
            uint64_t rec[3] = {i, r.stats.obs_hash, r.stats.hash};
            fwrite(rec, 8, 3, obsf);
        }
        if (r.stats.switches) il_hashes.insert(r.stats.il_hash);
        for (const char *key : {"heap_place", "heap_fill", "exact_fit", "sched", "width", "tasks", "faulted", "mode"}) {
            auto it = plan.cfg.find(key);
            if (it != plan.cfg.end()) cfg_counts[std::string(key) + "=" + std::to_string(it->second)]++;
        }
        if (!before_text.empty()) samples.push_back(plan.to_text());
    }
    if (hf) fclose(hf);
    if (obsf) fclose(obsf);
    if (!prefix.empty()) {
        cov_dump((prefix + ".cov").c_str());
        FILE *ilf = fopen((prefix + ".il").c_str(), "wb");
        if (ilf) {
            for (uint64_t h : il_hashes) fwrite(&h, 8, 1, ilf);
            fclose(ilf);
        }
        FILE *sf = fopen((prefix + ".samples").c_str(), "w");
        if (sf) {
            for (auto &s : samples) fprintf(sf, "%s---\n", s.c_str());
            fclose(sf);
        }
    }
    std::ostringstream o;
    o << "STATS {\"world\":\"" << wname << "\",\"runs\":" << runs << ",\"nontrivial\":" << nontriv << ",\"steps\":" << steps
      << ",\"allocs\":" << allocs << ",\"frees\":" << frees << ",\"switches\":" << switches
      << ",\"viol_runs\":" << nviol_runs << ",\"max_stack_hwm\":" << max_hwm << ",\"max_peak_live\":" << max_peak
      << ",\"first_index\":" << start << ",\"last_index\":" << last_i << ",\"wall_s\":" << (now_s() - t0)
      << ",\"cov_hit\":" << cov_hit_count() << ",\"cov_total\":" << cov_total_guards() << ",\"probes\":{";
    bool first = true;
    for (auto &kv : probe_counts()) {
        if (!first) o << ",";
        first = false;
        o << "\"" << json_escape(kv.first) << "\":" << kv.second;
    }
    o << "},\"cfg_counts\":{";
    first = true;
    for (auto &kv : cfg_counts) {
        if (!first) o << ",";
        first = false;
        o << "\"" << json_escape(kv.first) << "\":" << kv.second;
    }
    o << "}}\n";
    std::string s = o.str();
    ssize_t     r = write(1, s.data(), s.size());
    (void)r;
    return 0;
}

// ---------------------------------------------------------------------------------------------
static int cmd_gen(int argc, char **argv) {
    const std::string wname  = arg(argc, argv, "--world", "");
    const uint64_t    master = strtoull(arg(argc, argv, "--master", "1").c_str(), nullptr, 10);
    const uint64_t    index  = strtoull(arg(argc, argv, "--index", "0").c_str(), nullptr, 10);
    const int         tier   = atoi(arg(argc, argv, "--tier", "0").c_str());
    const World      *w      = find_world(wname);
    if (!w) return 2;
    runtime_init();
    Plan plan;
    plan.world = wname;
    plan.seed  = run_seed(master, wname.c_str(), index);
    plan.cfg["run_index"] = (int64_t)index;
    w->generate(plan, plan.seed, tier);
    apply_overrides(argc, argv, plan);
    fputs(plan.to_text().c_str(), stdout);
    return 0;
}

static int cmd_exec(int argc, char **argv) {
    const std::string path = arg(argc, argv, "--plan", "");
    Plan              plan;
    if (!plan.from_text(read_file(path))) {
        fprintf(stderr, "qsim: cannot read plan %s\n", path.c_str());
        return 2;
    }
    runtime_init();
    if (flag(argc, argv, "--threads")) set_backend_threads(true);
    ExecResult r = execute_plan(plan, 0);
    printf("RESULT hash=%016llx ilhash=%016llx obshash=%016llx steps=%llu switches=%llu nviol=%zu aborted=%d hwm=%llu\n",
           (unsigned long long)r.stats.hash, (unsigned long long)r.stats.il_hash, (unsigned long long)r.stats.obs_hash,
           (unsigned long long)r.stats.steps, (unsigned long long)r.stats.switches, r.stats.violations.size(),
           r.stats.aborted ? 1 : 0, (unsigned long long)r.stats.stack_hwm);
    if (flag(argc, argv, "--dump-plan")) fputs(plan.to_text().c_str(), stdout);
    for (auto &v : r.stats.violations) printf("VDETAIL sig=%s :: %s\n", v.sig.c_str(), v.detail.c_str());
    fflush(stdout);
    return r.stats.violations.empty() ? 0 : 1;
}

// ---------------------------------------------------------------------------------------------
// trap line -> signature
static std::string trap_signature(const std::string &line) {
    // TRAP run=.. seed=.. world=.. signo=N kind=K inlib=B pcs=a,b,c
    auto field = [&](const char *k) -> std::string {
        size_t p = line.find(std::string(" ") + k + "=");
        if (p == std::string::npos) return "";
        p += strlen(k) + 2;
        size_t e = line.find_first_of(" \n", p);
        return line.substr(p, e == std::string::npos ? std::string::npos : e - p);
    };
    std::string kind = field("kind"), signo = field("signo"), pcs = field("pcs");
    std::string names, last;
    int         n = 0;
    size_t      pos = 0;
    while (pos < pcs.size() && n < 3) {
        size_t      e  = pcs.find(',', pos);
        std::string h  = pcs.substr(pos, e == std::string::npos ? std::string::npos : e - pos);
        uintptr_t   pc = (uintptr_t)strtoull(h.c_str(), nullptr, 16);
        const char *m  = sym_mangled(pc);
        if (mangled_is_lib(m)) {
            std::string nm = short_name(m);
            if (nm != last) {
                if (n) names += "<";
                names += nm;
                last = nm;
                n++;
            }
        }
        if (e == std::string::npos) break;
        pos = e + 1;
    }
    const char *sn = signo == "11" ? "SIGSEGV" : signo == "8" ? "SIGFPE" : signo == "7" ? "SIGBUS" : signo == "4" ? "SIGILL"
                   : signo == "6" ? "SIGABRT" : signo == "14" ? "SIGALRM" : "SIG?";
    return std::string("trap:") + sn + "|" + kind + "|" + names;
}

static int cmd_trapsig(int argc, char **argv) {
    runtime_init();
    std::string line;
    for (int i = 2; i < argc; i++) {
        if (i > 2) line += " ";
        line += argv[i];
    }
    printf("%s\n", hex_encode(trap_signature(" " + line)).c_str());
    return 0;
}

// sanitizer report (ASan / UBSan text on stderr) -> signature. Frames are symbolized with our own ELF reader.
static std::string report_frames(const std::string &text, int maxn) {
    std::istringstream in(text);
    std::string        line, names, last;
    int                n = 0;
    while (std::getline(in, line) && n < maxn) {
        size_t p = line.find_first_not_of(' ');
        if (p == std::string::npos || line[p] != '#') continue;
        size_t x = line.find("0x", p);
        if (x == std::string::npos) continue;
        uintptr_t   pc = (uintptr_t)strtoull(line.c_str() + x, nullptr, 16);
        const char *m  = sym_mangled(pc ? pc - 1 : 0);
        if (!mangled_is_lib(m)) continue;
        std::string nm = short_name(m);
        if (nm.compare(0, 12, "MemoryRecord") == 0 || nm == last) continue;
        if (n) names += "<";
        names += nm;
        last = nm;
        n++;
    }
    return names;
}

static bool sanitizer_signature(const std::string &text, std::string &sig) {
    size_t a = text.find("ERROR: AddressSanitizer:");
    if (a != std::string::npos) {
        size_t      b    = a + strlen("ERROR: AddressSanitizer:");
        while (b < text.size() && text[b] == ' ') b++;
        size_t      e    = text.find_first_of(" \n", b);
        std::string kind = text.substr(b, e - b);
        std::string rw   = text.find("\nREAD of size") != std::string::npos    ? "read"
                           : text.find("\nWRITE of size") != std::string::npos ? "write"
                                                                                : "";
        sig = "asan:" + kind + "|" + rw + "|" + report_frames(text.substr(a), 3);
        return true;
    }
    size_t u = text.find("runtime error:");
    if (u != std::string::npos) {
        size_t      b = u + strlen("runtime error:");
        size_t      e = text.find('\n', b);
        std::string what;
        std::istringstream ws(text.substr(b, e - b));
        std::string        tok;
        while (ws >> tok) {
            bool digit = false;
            for (char c : tok)
                if (c >= '0' && c <= '9') digit = true;
            if (digit) continue;
            if (!what.empty()) what += " ";
            what += tok;
        }
        sig = "ubsan:" + what.substr(0, 60) + "||" + report_frames(text.substr(u), 3);
        return true;
    }
    return false;
}

struct ChildResult {
    std::set<std::string>              sigs;
    std::map<std::string, std::string> details;
    uint64_t                           hash{0};
    bool                               crashed{false};
};

// run a plan in a forked child, collect the signatures it reports
static ChildResult run_child_full(const Plan &plan) {
    ChildResult res;
    int         fds[2], efds[2];
    if (pipe(fds) != 0 || pipe(efds) != 0) return res;
    fflush(stdout);
    pid_t pid = fork();
    if (pid == 0) {
        close(fds[0]);
        close(efds[0]);
        dup2(efds[1], 2);
        set_result_fd(fds[1]);
        Plan       p = plan;
        ExecResult r = execute_plan(p, 0);
        char       buf[64];
        snprintf(buf, sizeof buf, "HASH %016llx\n", (unsigned long long)r.stats.hash);
        ssize_t wr = write(fds[1], buf, strlen(buf));
        (void)wr;
        _exit(0);
    }
    close(fds[1]);
    close(efds[1]);
    std::string all, err;
    char        buf[4096];
    ssize_t     n;
    // drain both pipes (stderr may be large): simple alternating non-blocking is overkill; read stdout pipe to EOF
    // after stderr because the child writes little to the result pipe
    while ((n = read(efds[0], buf, sizeof buf)) > 0) {
        if (err.size() < (1u << 20)) err.append(buf, (size_t)n);
    }
    while ((n = read(fds[0], buf, sizeof buf)) > 0) all.append(buf, (size_t)n);
    close(fds[0]);
    close(efds[0]);
    int status = 0;
    waitpid(pid, &status, 0);
    std::istringstream in(all);
    std::string        line;
    bool               saw_trap = false;
    std::string        sansig;
    bool               has_san = sanitizer_signature(err, sansig);
    while (std::getline(in, line)) {
        if (line.compare(0, 5, "VIOL ") == 0) {
            size_t p = line.find(" sig=");
            if (p != std::string::npos) {
                size_t      e   = line.find(' ', p + 5);
                std::string sig = hex_decode(line.substr(p + 5, e - (p + 5)));
                res.sigs.insert(sig);
                size_t d = line.find(" detail=");
                if (d != std::string::npos) res.details[sig] = hex_decode(line.substr(d + 8));
            }
        } else if (line.compare(0, 5, "TRAP ") == 0) {
            saw_trap = true;
            res.crashed = true;
            if (!has_san) {
                std::string sig = trap_signature(line);
                res.sigs.insert(sig);
                res.details[sig] = line;
            }
        } else if (line.compare(0, 5, "HASH ") == 0) {
            res.hash = strtoull(line.c_str() + 5, nullptr, 16);
        }
    }
    if (has_san) {
        res.crashed = true;
        res.sigs.insert(sansig);
        res.details[sansig] = err.substr(0, 3000);
    } else if (!saw_trap && (WIFSIGNALED(status) || (WIFEXITED(status) && WEXITSTATUS(status) != 0))) {
        res.crashed     = true;
        std::string sig = "trap:died|" + std::to_string(WIFSIGNALED(status) ? WTERMSIG(status) : WEXITSTATUS(status)) + "|";
        res.sigs.insert(sig);
        res.details[sig] = err.substr(0, 2000);
    }
    return res;
}

static std::set<std::string> run_child(const Plan &plan, uint64_t *hash_out = nullptr) {
    ChildResult r = run_child_full(plan);
    if (hash_out) *hash_out = r.hash;
    return r.sigs;
}

static int cmd_sigs(int argc, char **argv) {
    // run a plan in a child and print all signatures (hex) — used by the driver for gating
    const std::string path = arg(argc, argv, "--plan", "");
    Plan              plan;
    if (!plan.from_text(read_file(path))) return 2;
    runtime_init();
    if (flag(argc, argv, "--threads")) set_backend_threads(true);
    ChildResult r = run_child_full(plan);
    printf("HASH %016llx\n", (unsigned long long)r.hash);
    printf("CRASHED %d\n", r.crashed ? 1 : 0);
    for (auto &s : r.sigs) printf("SIG %s %s\n", hex_encode(s).c_str(), hex_encode(r.details[s]).c_str());
    return 0;
}

static int cmd_shrink(int argc, char **argv) {
    const std::string path   = arg(argc, argv, "--plan", "");
    const std::string out    = arg(argc, argv, "--out", "");
    const std::string target = hex_decode(arg(argc, argv, "--sig", ""));
    const int         budget = atoi(arg(argc, argv, "--budget", "3000").c_str());
    const double      tmax   = atof(arg(argc, argv, "--time-s", "90").c_str());
    Plan              plan;
    if (!plan.from_text(read_file(path))) return 2;
    runtime_init();
    int    tries = 0;
    double t0    = now_s();
    auto   still = [&](const Plan &p0) {
        tries++;
        Plan p = p0;
        if (p.cfg.find("wall_cap_s") == p.cfg.end()) p.cfg["wall_cap_s"] = 4; // candidates that hang must not eat the budget
        auto s = run_child(p);
        return s.count(target) != 0;
    };
    auto out_of_budget = [&]() { return tries >= budget || now_s() - t0 > tmax; };
    if (!still(plan)) {
        fprintf(stderr, "qsim shrink: target signature does not reproduce\n");
        return 3;
    }
    bool progress = true;
    while (progress && !out_of_budget()) {
        progress = false;
        // 1. drop chunks of ops
        for (size_t chunk = std::max<size_t>(1, plan.ops.size() / 2); chunk >= 1 && !out_of_budget(); chunk /= 2) {
            for (size_t i = 0; i < plan.ops.size() && !out_of_budget();) {
                Plan   c = plan;
                size_t e = std::min(plan.ops.size(), i + chunk);
                c.ops.erase(c.ops.begin() + (long)i, c.ops.begin() + (long)e);
                if (still(c)) {
                    plan     = c;
                    progress = true;
                } else {
                    i += chunk;
                }
            }
            if (chunk == 1) break;
        }
        // 2. plainest configuration
        for (auto &kv : std::map<std::string, int64_t>(plan.cfg)) {
            if (out_of_budget()) break;
            static const std::set<std::string> resettable = {"heap_place", "heap_fill", "exact_fit", "tasks", "sched"};
            if (!resettable.count(kv.first) || kv.second == 0) continue;
            Plan c          = plan;
            c.cfg[kv.first] = 0;
            if (kv.first == "sched") {
                c.sched.clear();
                c.sched_explicit = false;
            }
            if (still(c)) {
                plan     = c;
                progress = true;
            }
        }
        // 3. fewer context switches
        if (plan.sched_explicit) {
            for (size_t i = 0; i < plan.sched.size() && !out_of_budget();) {
                Plan c = plan;
                c.sched.erase(c.sched.begin() + (long)i);
                if (still(c)) {
                    plan     = c;
                    progress = true;
                } else
                    i++;
            }
        }
        // 4. simpler arguments
        for (size_t i = 0; i < plan.ops.size() && !out_of_budget(); i++) {
            for (size_t k = 0; k < plan.ops[i].s.size() && !out_of_budget(); k++) {
                // delta debugging on the string at 4-byte (one code unit) granularity: drop chunks of halving size
                if (plan.ops[i].s[k].empty()) continue;
                {
                    Plan c        = plan;
                    c.ops[i].s[k] = std::string();
                    if (still(c)) {
                        plan     = c;
                        progress = true;
                        continue;
                    }
                }
                const size_t gran = (plan.ops[i].s[k].size() % 4 == 0) ? 4 : 1;
                for (size_t chunk = std::max<size_t>(1, plan.ops[i].s[k].size() / gran / 2); chunk >= 1 && !out_of_budget(); chunk /= 2) {
                    for (size_t at = 0; at < plan.ops[i].s[k].size() / gran && !out_of_budget();) {
                        const std::string &cur = plan.ops[i].s[k];
                        size_t             e   = std::min(cur.size() / gran, at + chunk);
                        Plan               c   = plan;
                        c.ops[i].s[k]          = cur.substr(0, at * gran) + cur.substr(e * gran);
                        if (still(c)) {
                            plan     = c;
                            progress = true;
                        } else {
                            at += chunk;
                        }
                    }
                    if (chunk == 1) break;
                }
            }
            for (int k = 0; k < 6 && !out_of_budget(); k++) {
                int64_t cur = plan.ops[i].a[k];
                if (cur == 0) continue;
                for (int64_t cand : {int64_t(0), cur / 2}) {
                    if (cand == cur) continue;
                    Plan c        = plan;
                    c.ops[i].a[k] = cand;
                    if (still(c)) {
                        plan     = c;
                        progress = true;
                        break;
                    }
                }
            }
        }
    }
    std::ofstream f(out);
    f << plan.to_text();
    f.close();
    printf("SHRUNK ops=%zu slices=%zu tries=%d\n", plan.ops.size(), plan.sched.size(), tries);
    return 0;
}

static int cmd_symbolize(int argc, char **argv) {
    runtime_init();
    for (int i = 2; i < argc; i++) {
        uintptr_t   pc = (uintptr_t)strtoull(argv[i], nullptr, 16);
        const char *m  = sym_mangled(pc);
        printf("%s %d %s\n", argv[i], mangled_is_lib(m) ? 1 : 0, short_name(m).c_str());
    }
    return 0;
}

static int cmd_props(int argc, char **argv) {
    // props --world W --cls CLS  -> property ids
    const World *w = find_world(arg(argc, argv, "--world", ""));
    if (!w) return 2;
    printf("%s\n", w->props(arg(argc, argv, "--cls", "")));
    return 0;
}

} // namespace qsim

int main(int argc, char **argv) {
    using namespace qsim;
    if (argc < 2) {
        fprintf(stderr, "usage: qsim search|gen|exec|sigs|shrink|symbolize|trapsig|props|worlds ...\n");
        return 2;
    }
    std::string cmd = argv[1];
    if (cmd == "search") return cmd_search(argc, argv);
    if (cmd == "gen") return cmd_gen(argc, argv);
    if (cmd == "exec") return cmd_exec(argc, argv);
    if (cmd == "sigs") return cmd_sigs(argc, argv);
    if (cmd == "shrink") return cmd_shrink(argc, argv);
    if (cmd == "symbolize") return cmd_symbolize(argc, argv);
    if (cmd == "trapsig") return cmd_trapsig(argc, argv);
    if (cmd == "props") return cmd_props(argc, argv);
    if (cmd == "worlds") {
        for (auto *w : worlds()) printf("%s\n", w->name);
        return 0;
    }
    fprintf(stderr, "qsim: unknown command %s\n", cmd.c_str());
    return 2;
}
