// In-process symbolizer: reads .symtab of /proc/self/exe (binary is linked -no-pie, so st_value is the
// run-time address). Used to turn shadow-stack PCs into stable function names for violation signatures.
#include "rt_int.hpp"

#include <algorithm>
#include <cxxabi.h>
#include <elf.h>
#include <fcntl.h>
#include <sys/mman.h>
#include <sys/stat.h>
#include <unistd.h>

namespace qsim {

struct Sym {
    uintptr_t   addr;
    uintptr_t   size;
    const char *name;
};

static std::vector<Sym> g_syms;
static bool             g_syms_loaded = false;

static void load_syms() {
    if (g_syms_loaded) return;
    g_syms_loaded = true;
    int fd        = open("/proc/self/exe", O_RDONLY);
    if (fd < 0) return;
    struct stat st;
    if (fstat(fd, &st) != 0) {
        close(fd);
        return;
    }
    void *m = mmap(nullptr, (size_t)st.st_size, PROT_READ, MAP_PRIVATE, fd, 0);
    close(fd);
    if (m == MAP_FAILED) return;
    const unsigned char *base = (const unsigned char *)m;
    const Elf64_Ehdr    *eh   = (const Elf64_Ehdr *)base;
    const Elf64_Shdr    *sh   = (const Elf64_Shdr *)(base + eh->e_shoff);
    for (int i = 0; i < eh->e_shnum; i++) {
        if (sh[i].sh_type != SHT_SYMTAB) continue;
        const Elf64_Sym *syms = (const Elf64_Sym *)(base + sh[i].sh_offset);
        size_t           n    = sh[i].sh_size / sizeof(Elf64_Sym);
        const char      *strs = (const char *)(base + sh[sh[i].sh_link].sh_offset);
        for (size_t k = 0; k < n; k++) {
            if (ELF64_ST_TYPE(syms[k].st_info) != STT_FUNC || syms[k].st_value == 0) continue;
            g_syms.push_back(Sym{(uintptr_t)syms[k].st_value, (uintptr_t)syms[k].st_size, strs + syms[k].st_name});
        }
    }
    std::sort(g_syms.begin(), g_syms.end(), [](const Sym &a, const Sym &b) { return a.addr < b.addr; });
    // mapping intentionally kept (names point into it)
}

const char *sym_mangled(uintptr_t pc) {
    load_syms();
    if (g_syms.empty()) return nullptr;
    size_t lo = 0, hi = g_syms.size();
    while (lo + 1 < hi) {
        size_t mid = (lo + hi) / 2;
        if (g_syms[mid].addr <= pc)
            lo = mid;
        else
            hi = mid;
    }
    const Sym &s = g_syms[lo];
    if (pc < s.addr) return nullptr;
    if (s.size != 0 && pc >= s.addr + s.size + 16) return nullptr;
    return s.name;
}

uintptr_t sym_start(uintptr_t pc) {
    load_syms();
    if (g_syms.empty()) return 0;
    size_t lo = 0, hi = g_syms.size();
    while (lo + 1 < hi) {
        size_t mid = (lo + hi) / 2;
        if (g_syms[mid].addr <= pc)
            lo = mid;
        else
            hi = mid;
    }
    return g_syms[lo].addr <= pc ? g_syms[lo].addr : 0;
}

bool mangled_is_lib(const char *m) {
    if (m == nullptr) return false;
    // _ZN[KVrRO]*6Qentem...  : a function whose outermost scope is namespace Qentem
    if (m[0] != '_' || m[1] != 'Z') return false;
    const char *p = m + 2;
    if (*p != 'N') return false;
    ++p;
    while (*p == 'K' || *p == 'V' || *p == 'r' || *p == 'R' || *p == 'O') ++p;
    return strncmp(p, "6Qentem", 7) == 0;
}

bool pc_is_lib(uintptr_t pc) {
    return mangled_is_lib(sym_mangled(pc));
}

// "Qentem::JSONUtils::UnEscape<char, Qentem::StringStream<char> >(char const*, ...)" -> "JSONUtils::UnEscape"
std::string short_name(const char *mangled) {
    if (mangled == nullptr) return "?";
    int         status = 0;
    char       *dm     = abi::__cxa_demangle(mangled, nullptr, nullptr, &status);
    std::string s      = (status == 0 && dm) ? dm : mangled;
    free(dm);
    // drop template arguments and parameter lists
    std::string out;
    int         depth_t = 0, depth_p = 0;
    for (size_t i = 0; i < s.size(); i++) {
        char c = s[i];
        if (c == '<' && !(i >= 8 && s.compare(i - 8, 8, "operator") == 0) &&
            !(i >= 9 && s.compare(i - 9, 9, "operator<") == 0)) {
            depth_t++;
            continue;
        }
        if (c == '>' && depth_t > 0) {
            depth_t--;
            continue;
        }
        if (depth_t > 0) continue;
        if (c == '(') {
            depth_p++;
            continue;
        }
        if (c == ')' && depth_p > 0) {
            depth_p--;
            continue;
        }
        if (depth_p > 0) continue;
        out.push_back(c);
    }
    // drop a leading return type: keep from the token that contains "Qentem::" or last token
    size_t q = out.find("Qentem::");
    if (q != std::string::npos) {
        out = out.substr(q + 8);
    } else {
        size_t sp = out.rfind(' ');
        if (sp != std::string::npos && sp + 1 < out.size() && out.find("operator") == std::string::npos)
            out = out.substr(sp + 1);
    }
    // trailing qualifiers
    for (const char *suf : {" const", " noexcept", " &", " &&"}) {
        size_t l = strlen(suf);
        while (out.size() > l && out.compare(out.size() - l, l, suf) == 0) out.erase(out.size() - l);
    }
    while (!out.empty() && out.back() == ' ') out.pop_back();
    return out;
}

std::string pc_short_name(uintptr_t pc) {
    return short_name(sym_mangled(pc));
}

} // namespace qsim
