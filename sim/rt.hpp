// qsim runtime interface. This header includes no Qentem header; the runtime (rt.cpp) is
// compiled plain, the worlds (which include Qentem headers) are compiled instrumented.
#ifndef QSIM_RT_HPP
#define QSIM_RT_HPP

#include <cstddef>
#include <cstdint>
#include <cstring>
#include <functional>
#include <map>
#include <string>
#include <vector>

namespace qsim {

// ---------------------------------------------------------------------------------------------
// PRNG: splitmix64 for seeding, xoshiro256** per stream
// ---------------------------------------------------------------------------------------------
inline uint64_t splitmix64(uint64_t &x) {
    uint64_t z = (x += 0x9E3779B97F4A7C15ULL);
    z          = (z ^ (z >> 30)) * 0xBF58476D1CE4E5B9ULL;
    z          = (z ^ (z >> 27)) * 0x94D049BB133111EBULL;
    return z ^ (z >> 31);
}

inline uint64_t hash_str(const char *s) {
    uint64_t h = 1469598103934665603ULL;
    while (*s) {
        h ^= (unsigned char)*s++;
        h *= 1099511628211ULL;
    }
    return h;
}

struct Rng {
    uint64_t s[4];
    explicit Rng(uint64_t seed = 1) {
        reseed(seed);
    }
    void reseed(uint64_t seed) {
        for (auto &v : s) v = splitmix64(seed);
    }
    static uint64_t rotl(uint64_t x, int k) {
        return (x << k) | (x >> (64 - k));
    }
    uint64_t next() {
        const uint64_t r = rotl(s[1] * 5, 7) * 9, t = s[1] << 17;
        s[2] ^= s[0];
        s[3] ^= s[1];
        s[1] ^= s[2];
        s[0] ^= s[3];
        s[2] ^= t;
        s[3] = rotl(s[3], 45);
        return r;
    }
    // uniform in [0,n), n>0
    uint64_t below(uint64_t n) {
        return n ? next() % n : 0;
    }
    int64_t range(int64_t lo, int64_t hi) { // inclusive
        return lo + (int64_t)below((uint64_t)(hi - lo + 1));
    }
    bool chance(unsigned num, unsigned den) {
        return below(den) < num;
    }
    template <typename T>
    const T &pick(const std::vector<T> &v) {
        return v[below(v.size())];
    }
};

// stream derivation: independent streams per concern from one run seed
inline uint64_t derive(uint64_t run_seed, const char *stream) {
    uint64_t x = run_seed ^ hash_str(stream);
    return splitmix64(x);
}
inline uint64_t run_seed(uint64_t master, const char *world, uint64_t i) {
    uint64_t x = master ^ hash_str(world) ^ (i * 0x9E3779B97F4A7C15ULL + 0x1234567ULL);
    return splitmix64(x);
}

// ---------------------------------------------------------------------------------------------
// Plans: a plan is everything that decides one execution. Text form, one item per line.
// ---------------------------------------------------------------------------------------------
struct Op {
    int                      kind{0};
    int64_t                  a[6]{0, 0, 0, 0, 0, 0};
    std::vector<std::string> s; // byte strings (code units are encoded by the world)
    bool                     enabled{true};
};

struct Slice {
    int      task;
    uint32_t steps;
};

struct Plan {
    std::string                    world;
    uint64_t                       seed{0};
    std::map<std::string, int64_t> cfg;   // swarm configuration knobs
    std::vector<Op>                ops;   // workload, faults are ops attached to the text they damage
    std::vector<Slice>             sched; // explicit schedule (filled while running in search mode)
    bool                           sched_explicit{false};

    int64_t get(const std::string &k, int64_t dflt = 0) const {
        auto it = cfg.find(k);
        return it == cfg.end() ? dflt : it->second;
    }
    std::string to_text() const;
    bool        from_text(const std::string &text);
};

// ---------------------------------------------------------------------------------------------
// Violations
// ---------------------------------------------------------------------------------------------
struct Violation {
    std::string cls;    // oob-read, oob-write, uaf-read, uaf-write, null, wild, foreign, purity-store, race,
                        // double-free, bad-free, leak, canary, hang, trap:SIG, stack, model, obs-oob, ...
    std::string sig;    // stable signature: cls|detail|fn1<fn2<fn3
    std::string detail; // human text (not part of matching)
};

// ---------------------------------------------------------------------------------------------
// Heap / region API used by worlds
// ---------------------------------------------------------------------------------------------
enum BlockKind : uint8_t {
    BK_LIB    = 0, // allocated by library code through operator new
    BK_INPUT  = 1, // harness-owned input text, exact size; library may read, never write
    BK_OBJECT = 2, // harness-owned storage in which library objects live (roots, streams); library reads and writes
};

void *alloc_block(size_t bytes, BlockKind kind); // harness allocation inside the arena
void  free_block(void *p);                       // harness release of BK_INPUT / BK_OBJECT
bool  readable(const void *p, size_t n);         // p..p+n lies inside one live block (or is empty)
bool  in_arena(const void *p);
void  mark_shared_ro_all();                      // every live block becomes shared read-only (C17 setup -> tasks)
void  clear_shared_ro_all();
uint64_t digest_shared();                        // content digest of every shared read-only block
uint64_t steps_now();                            // simulated time
size_t   stack_hwm();                            // deepest stack use of any task of this run so far (bytes)
size_t live_lib_blocks();
// reports a "leak" violation (with the allocating functions) if library blocks are still live; call when every
// library object of the run has been destroyed
void check_leaks(const char *world);
void   set_block_owner_task(void *p, int task); // pre-assign a block to a task (its output stream)
// number of library blocks currently live that were allocated after 'mark' (serial), for leak attribution
uint32_t heap_serial();

// A bracket: accesses / allocations are attributed to the library only while one is open.
struct LibCall {
    LibCall();
    ~LibCall();
    LibCall(const LibCall &)            = delete;
    LibCall &operator=(const LibCall &) = delete;
    bool prev;
};

// ---------------------------------------------------------------------------------------------
// Run lifecycle
// ---------------------------------------------------------------------------------------------
struct RunStats {
    uint64_t steps{0};
    uint64_t allocs{0}, frees{0}, peak_live{0};
    uint64_t switches{0};
    uint64_t hash{0};     // event-log hash
    uint64_t il_hash{0};  // interleaving hash
    uint64_t obs_hash{0}; // observation hash (world-level; comparable across builds)
    uint64_t stack_hwm{0};
    bool     aborted{false};
    std::vector<Violation> violations;
};

// event log: worlds feed observations; the runtime feeds allocator + scheduler events
void ev(uint64_t x);
void obs(uint64_t x); // goes into obs_hash and into the event hash
inline void obs_bytes(const void *p, size_t n) {
    const unsigned char *c = (const unsigned char *)p;
    uint64_t             h = 1469598103934665603ULL ^ n;
    for (size_t i = 0; i < n; i++) {
        h ^= c[i];
        h *= 1099511628211ULL;
    }
    obs(h);
}

// report a world-level violation (model mismatch etc.). 'key' is the stable part of the signature.
void report(const char *cls, const std::string &key, const std::string &detail);
bool run_aborted();
// abandon the current run from inside a task (used after a violation that makes continuing meaningless)
[[noreturn]] void abort_run();

// probes: named counters for "this rare condition was hit"
void probe(const char *name, uint64_t n = 1);

// knob read by the /repo hook (exact-fit growth)
void set_exact_fit(bool on);
// from here on, exceeding the step budget ends the run as abandoned instead of reporting a hang (for inputs whose
// legitimate cost is known to be astronomical: see has_long_exponent in worlds/common.hpp)
void set_soft_budget(bool on);
// a run whose step clock stands still for 20 s is abandoned instead of reported (for inputs known to keep a register-only
// loop of the library busy for seconds); the step budget itself stays hard
void set_stall_abandon(bool on);

// ---------------------------------------------------------------------------------------------
// Tasks
// ---------------------------------------------------------------------------------------------
using TaskFn = std::function<void()>;

struct TaskSpec {
    TaskFn fn;
    size_t stack_bytes{256 * 1024};
};

// Executes a single function as task 0 on a simulator-owned painted stack (sequential worlds, and the
// setup phase of concurrent worlds).
void run_single(const TaskFn &fn, size_t stack_bytes = 1 << 20);

// Executes the tasks concurrently under the scheduler selected by plan.cfg ("sched", "slice", "pct_d").
// If plan.sched_explicit the recorded slices are replayed, otherwise they are drawn from the seed and
// appended to plan.sched.
void run_tasks(std::vector<TaskSpec> &tasks, Plan &plan);

int  current_task();
void set_backend_threads(bool on); // thread back end instead of fibers
bool backend_threads();

// ---------------------------------------------------------------------------------------------
// World registry
// ---------------------------------------------------------------------------------------------
struct World {
    const char *name;
    // build the plan for a seed (tier: 0 quick, 1 thorough); variant selects a population (e.g. faulted vs fault-free)
    void (*generate)(Plan &plan, uint64_t seed, int tier);
    // execute; must call run_single/run_tasks. Returns nontrivial flag.
    bool (*execute)(Plan &plan);
    // map (violation class) -> property ids, comma separated
    const char *(*props)(const std::string &cls);
};
void         register_world(const World *w);
const World *find_world(const std::string &name);

// helper for worlds: begin/end of a run are driven by the runtime's main(), worlds only see execute().
struct RunCfg {
    int      placement{0}; // 0 bump+quarantine, 1 lifo-reuse, 2 random-fit
    int      fill{0};      // 0 garbage, 1 0xFF, 2 zero
    uint64_t heap_seed{1};
    uint64_t step_budget{200000000ULL};
    bool     soft_budget{false}; // past the budget the run is given up (counted), not reported as a hang
};

// utf / text helpers shared by worlds (plain code, no Qentem)
std::string hex_encode(const std::string &s);
std::string hex_decode(const std::string &s);

} // namespace qsim

// registration helper
#define QSIM_REGISTER_WORLD(w)                                  \
    namespace {                                                 \
    struct Reg_##w {                                            \
        Reg_##w() {                                             \
            qsim::register_world(&w);                           \
        }                                                       \
    } reg_instance_##w;                                         \
    }

#endif
