// internal declarations shared between runtime translation units
#ifndef QSIM_RT_INT_HPP
#define QSIM_RT_INT_HPP

#include "rt.hpp"

namespace qsim {

const char *sym_mangled(uintptr_t pc);
uintptr_t   sym_start(uintptr_t pc); // start address of the enclosing function (binary is not PIE: stable)
bool        mangled_is_lib(const char *m);
bool        pc_is_lib(uintptr_t pc);
std::string short_name(const char *mangled);
std::string pc_short_name(uintptr_t pc);

// run lifecycle (rt_core.cpp), driven by rt_main.cpp
void runtime_init();
void run_begin(const RunCfg &cfg);
void run_end(RunStats &out);

// set by main so the trap handler can say which run died
void set_current_run_info(uint64_t index, uint64_t seed, const char *world);

// where VIOL / TRAP lines go (fd)
void set_result_fd(int fd);

// probes / counters accumulated over the whole process
const std::map<std::string, uint64_t> &probe_counts();

// coverage
size_t cov_total_guards();
size_t cov_hit_count();
void   cov_dump(const char *path); // raw byte map
void   cov_reset();

} // namespace qsim

#endif
