// qsim runtime core: simulated heap + ledger, access monitor, tsan-callback entry points,
// cooperative tasks (fibers) under a seeded scheduler, race detector for globals, trap handling.
// Compiled WITHOUT instrumentation. Includes no Qentem header.
#include "rt_int.hpp"

#include <algorithm>
#include <csignal>
#include <cstdio>
#include <cstdlib>
#include <new>
#include <pthread.h>
#include <semaphore.h>
#include <sys/mman.h>
#include <ucontext.h>
#include <unistd.h>
#include <unordered_map>

extern "C" char __executable_start, etext, edata, end, __data_start;

namespace qsim {

// ---------------------------------------------------------------------------------------------
// constants and state
// ---------------------------------------------------------------------------------------------
static constexpr size_t   ASZ      = size_t(1) << 29; // 512 MiB virtual arena
static constexpr size_t   GR       = 16;              // granule
static constexpr size_t   RZ       = 64;              // redzone
static constexpr uint8_t  CANARY   = 0xCA;
static constexpr uint8_t  FREED    = 0xDD;
static constexpr int      MAXTASK  = 8;
static constexpr int      SSDEPTH  = 192;
static constexpr size_t   STACK_SZ = size_t(24) << 20; // per task slot, virtual
static constexpr size_t   GUARD_SZ = 64 * 1024;
static constexpr uint8_t  PAINT    = 0xA5;

struct Block {
    uint32_t  off;
    uint32_t  size;
    uint32_t  rsize;
    uint8_t   kind;
    uint8_t   state; // 0 live, 1 freed
    int8_t    owner; // task id, -1 none
    uint8_t   shared_ro;
    uintptr_t site[3];
};

static uint8_t               *A = nullptr;
static uint32_t              *G = nullptr;
static size_t                 g_bump = 0;
static std::vector<Block>     g_blocks;
static std::map<uint32_t, std::vector<uint32_t>> g_free; // rsize -> offsets
static RunCfg                 g_cfg;
static Rng                    g_heap_rng(1);
static uint64_t               g_live_lib = 0, g_live_all = 0, g_peak_live = 0, g_allocs = 0, g_frees = 0;
static uint64_t               g_memrec_add = 0, g_memrec_remove = 0;

struct VC {
    uint32_t c[MAXTASK + 1];
};

struct Task {
    ucontext_t ctx;
    uint8_t   *stack_lo{nullptr}; // lowest usable address (above guard)
    uint8_t   *stack_hi{nullptr};
    size_t     paint{0};
    TaskFn     fn;
    bool       done{false}, started{false}, in_lib{false};
    int        id{0};
    uintptr_t  ss[SSDEPTH];
    int        sdepth{0};
    uint64_t   steps{0};
    VC         vc;
    uintptr_t  blocked_on{0};
    size_t     hwm{0};
    // thread back end: the task is a real OS thread (own TLS), parked on its semaphore whenever it is not scheduled
    bool       as_thread{false};
    pthread_t  th{};
    sem_t      sem;
    void      *th_stack{nullptr};
    size_t     th_stack_sz{0};
};

static Task       g_tasks[MAXTASK];
static Task      *g_cur      = nullptr;
static int        g_ntasks   = 0; // tasks in the current run_tasks phase (1 for run_single)
static ucontext_t g_sched_ctx;
static sem_t      g_sched_sem;
static bool       g_sched_sem_init = false;

// hand the processor from a task back to the scheduler / from the scheduler to a task
static void park_forever() {
    for (;;) pause();
}
static inline void to_scheduler(Task *t) {
    if (t->as_thread) {
        sem_post(&g_sched_sem);
        while (sem_wait(&t->sem) != 0) {
        }
    } else {
        swapcontext(&t->ctx, &g_sched_ctx);
    }
}
static inline void to_task(Task *t) {
    if (t->as_thread) {
        sem_post(&t->sem);
        while (sem_wait(&g_sched_sem) != 0) {
        }
    } else {
        swapcontext(&g_sched_ctx, &t->ctx);
    }
}
static uint64_t   g_slice_left = 0;
static bool       g_in_rt      = false;
static bool       g_aborted    = false;
static bool       g_run_active = false;
static uint64_t   g_steps      = 0;
static uint64_t   g_switches   = 0;
static uint64_t   g_hash = 0, g_il_hash = 0, g_obs_hash = 0;
static std::vector<Violation> g_viol;
static std::map<std::string, uint64_t> g_probes;
static int        g_result_fd = 1;
static bool       g_exact_fit = false;
static bool       g_threads   = false;
static bool       g_yield_on_event = false;
static Rng        g_sched_rng(1);
static size_t     g_stack_hwm = 0;
static uint64_t   g_alarm_last_steps = ~0ULL;
static uint64_t   g_bad_accesses = 0;
static bool       g_sync_released = false; // a simulated lock / guard was released since the scheduler last looked

static uint64_t    g_run_index = 0, g_run_seed = 0;
static char        g_run_world[64] = {0};

struct RtGuard {
    bool prev;
    RtGuard() : prev(g_in_rt) {
        g_in_rt = true;
    }
    ~RtGuard() {
        g_in_rt = prev;
    }
};

static inline bool lib_active() {
    return g_cur != nullptr && g_cur->in_lib && !g_in_rt;
}

void set_result_fd(int fd) {
    g_result_fd = fd;
}
void set_current_run_info(uint64_t index, uint64_t seed, const char *world) {
    g_run_index = index;
    g_run_seed  = seed;
    strncpy(g_run_world, world, sizeof(g_run_world) - 1);
}
const std::map<std::string, uint64_t> &probe_counts() {
    return g_probes;
}
void probe(const char *name, uint64_t n) {
    RtGuard g;
    g_probes[name] += n;
}
void set_exact_fit(bool on) {
    g_exact_fit = on;
}
void set_soft_budget(bool on) {
    if (on) g_cfg.soft_budget = true;
}
static bool g_stall_abandon = false;
void set_stall_abandon(bool on) {
    if (on) g_stall_abandon = true;
}
int current_task() {
    return g_cur ? g_cur->id : 0;
}
void set_backend_threads(bool on) {
    g_threads = on;
}
bool backend_threads() {
    return g_threads;
}

static inline void mix(uint64_t &h, uint64_t x) {
    h ^= x + 0x9E3779B97F4A7C15ULL + (h << 6) + (h >> 2);
    h *= 0xFF51AFD7ED558CCDULL;
    h ^= h >> 29;
}
void ev(uint64_t x) {
    mix(g_hash, x);
}
void obs(uint64_t x) {
    mix(g_obs_hash, x);
    mix(g_hash, x);
}

// ---------------------------------------------------------------------------------------------
// violations
// ---------------------------------------------------------------------------------------------
// optimiser twins have no shadow stack (nothing is instrumented): walk the frame pointers of the fiber instead
// (their worlds and this runtime are compiled with -fno-omit-frame-pointer; inlined functions do not appear)
static std::string stack_names_fp(int maxn) {
    std::string s;
    if (g_cur->as_thread || g_cur->stack_lo == nullptr) return s;
    uintptr_t  lo = (uintptr_t)g_cur->stack_lo, hi = (uintptr_t)g_cur->stack_hi;
    uintptr_t *fp = (uintptr_t *)__builtin_frame_address(0);
    int         n = 0;
    std::string last;
    for (int depth = 0; depth < 48 && n < maxn; depth++) {
        if ((uintptr_t)fp < lo || (uintptr_t)fp + 16 > hi || ((uintptr_t)fp & 7) != 0) break;
        uintptr_t  ret  = fp[1];
        uintptr_t *next = (uintptr_t *)fp[0];
        if (ret == 0) break;
        const char *m = sym_mangled(ret);
        // (a harness wrapper that is one library call compiled as its own unit stands for the inlined call)
        if (mangled_is_lib(m) || (m != nullptr && strstr(m, "in_own_unit") != nullptr)) {
            std::string nm = short_name(m);
            if (nm != last) {
                if (n) s += "<";
                s += nm;
                last = nm;
                n++;
            }
        }
        if (next <= fp) break;
        fp = next;
    }
    return s;
}

static std::string stack_names(int maxn) {
    std::string s;
    if (g_cur == nullptr) return s;
    if (g_cur->sdepth == 0) return stack_names_fp(maxn);
    int n = 0;
    std::string last;
    for (int i = std::min(g_cur->sdepth, SSDEPTH) - 1; i >= 0 && n < maxn; i--) {
        const char *m = sym_mangled(g_cur->ss[i]);
        if (!mangled_is_lib(m)) continue;
        std::string nm = short_name(m);
        if (nm == last) continue; // recursion collapses
        if (n) s += "<";
        s += nm;
        last = nm;
        n++;
    }
    return s;
}

static void emit_line(const std::string &line) {
    ssize_t r = write(g_result_fd, line.data(), line.size());
    (void)r;
}

static void add_violation(const char *cls, const std::string &key, const std::string &detail, bool with_stack) {
    RtGuard     g;
    std::string sig = std::string(cls) + "|" + key;
    if (with_stack) sig += "|" + stack_names(3);
    for (auto &v : g_viol)
        if (v.sig == sig) return;
    if (g_viol.size() >= 24) return;
    Violation v;
    v.cls    = cls;
    v.sig    = sig;
    v.detail = detail;
    g_viol.push_back(v);
    char buf[160];
    snprintf(buf, sizeof buf, "VIOL run=%llu seed=%llu world=%s sig=", (unsigned long long)g_run_index,
             (unsigned long long)g_run_seed, g_run_world);
    emit_line(std::string(buf) + hex_encode(sig) + " detail=" + hex_encode(detail) + "\n");
}

void report(const char *cls, const std::string &key, const std::string &detail) {
    add_violation(cls, key, detail, false);
}
bool run_aborted() {
    return g_aborted;
}

[[noreturn]] void abort_run() {
    g_aborted = true;
    g_in_rt   = false;
    if (g_cur != nullptr) {
        Task *t   = g_cur;
        t->in_lib = false;
        if (t->as_thread) {
            sem_post(&g_sched_sem);
            park_forever(); // the thread and its stack are abandoned with the run
        }
        swapcontext(&t->ctx, &g_sched_ctx);
    }
    // not inside a task: cannot unwind; treat as fatal framework error
    fprintf(stderr, "qsim: abort_run outside task\n");
    _exit(3);
}

// ---------------------------------------------------------------------------------------------
// heap
// ---------------------------------------------------------------------------------------------
static inline size_t align16(size_t x) {
    return (x + 15) & ~size_t(15);
}

static void capture_site(Block &b) {
    b.site[0] = b.site[1] = b.site[2] = 0;
    if (g_cur == nullptr) return;
    int n = 0;
    for (int i = std::min(g_cur->sdepth, SSDEPTH) - 1; i >= 0 && n < 3; i--) b.site[n++] = g_cur->ss[i];
}

static void fill_fresh(uint8_t *p, size_t n, uint32_t serial) {
    switch (g_cfg.fill) {
        case 1: memset(p, 0xFF, n); break;
        case 2: memset(p, 0x00, n); break;
        default: {
            uint64_t x = g_cfg.heap_seed ^ (uint64_t(serial) * 0x9E3779B97F4A7C15ULL);
            size_t   i = 0;
            for (; i + 8 <= n; i += 8) {
                uint64_t w = splitmix64(x) | 0xA500000000000000ULL; // non-canonical as a pointer
                w &= 0xA5FFFFFFFFFFFFFFULL | 0xA500000000000000ULL;
                memcpy(p + i, &w, 8);
            }
            uint64_t w = splitmix64(x);
            for (; i < n; i++) {
                p[i] = (uint8_t)(w | 0x81);
                w >>= 8;
            }
        }
    }
}

static void *arena_alloc(size_t size, BlockKind kind) {
    size_t   rsize = align16(size ? size : 1);
    uint32_t off   = 0;
    bool     reused = false;
    if (g_cfg.placement != 0) {
        auto it = g_free.find((uint32_t)rsize);
        if (it != g_free.end() && !it->second.empty()) {
            auto &v = it->second;
            size_t k = v.size() - 1;
            if (g_cfg.placement == 2) k = (size_t)g_heap_rng.below(v.size());
            off = v[k];
            v.erase(v.begin() + (long)k);
            reused = true;
        }
    }
    if (!reused) {
        size_t o = g_bump + RZ;
        if (size > (size_t(1) << 28)) {
            // geometric growth of something that really is that large (a live block of at least a sixteenth of the
            // request exists): a simulator resource limit, not a finding
            for (auto &lb : g_blocks)
                if (lb.state == 0 && lb.size >= size / 16) {
                    g_probes["sim.arena-exhausted-run-abandoned"]++;
                    abort_run();
                }
            // a request no caller could mean (garbage size after memory corruption): in a real process operator
            // new would throw and the -fno-exceptions library would terminate
            add_violation("alloc-huge", "", "allocation request of " + std::to_string(size) + " bytes", true);
            abort_run();
        }
        if (o + rsize + RZ > ASZ) {
            // simulator resource limit (quarantine never reuses memory): give the run up, it is not a finding
            g_probes["sim.arena-exhausted-run-abandoned"]++; // (still under the caller's RtGuard: node comes from malloc)
            abort_run();
        }
        off    = (uint32_t)o;
        g_bump = o + rsize;
        memset(A + off - RZ, CANARY, RZ);
        memset(A + off + rsize, CANARY, RZ);
    }
    Block b;
    b.off       = off;
    b.size      = (uint32_t)size;
    b.rsize     = (uint32_t)rsize;
    b.kind      = kind;
    b.state     = 0;
    b.owner     = (int8_t)((g_ntasks > 1 && g_cur) ? g_cur->id : -1);
    b.shared_ro = 0;
    capture_site(b);
    g_blocks.push_back(b);
    uint32_t serial = (uint32_t)g_blocks.size();
    for (size_t gi = off / GR; gi < (off + rsize) / GR; gi++) G[gi] = serial;
    fill_fresh(A + off, size, serial);
    memset(A + off + size, CANARY, rsize - size);
    g_allocs++;
    g_live_all++;
    if (kind == BK_LIB) {
        g_live_lib++;
    }
    if (g_live_all > g_peak_live) g_peak_live = g_live_all;
    ev(0xA110C000ULL ^ (uint64_t(size) << 8) ^ (g_steps << 32) ^ kind);
    return A + off;
}

static bool canary_ok(const Block &b) {
    const uint8_t *p = A + b.off;
    for (size_t i = b.size; i < b.rsize; i++)
        if (p[i] != CANARY) return false;
    for (size_t i = 0; i < RZ; i++)
        if (p[-(long)RZ + (long)i] != CANARY || p[b.rsize + i] != CANARY) return false;
    return true;
}

static std::string site_names(const Block &b) {
    std::string s;
    int         n = 0;
    for (int i = 0; i < 3; i++) {
        if (!b.site[i]) continue;
        const char *m = sym_mangled(b.site[i]);
        if (!mangled_is_lib(m)) continue;
        if (n++) s += "<";
        s += short_name(m);
    }
    return s;
}

// returns false if p is not an arena pointer
static bool arena_free(void *p, bool from_lib) {
    uintptr_t d = (uintptr_t)p - (uintptr_t)A;
    if (d >= ASZ) return false;
    uint32_t serial = G[d / GR];
    if (serial == 0) {
        add_violation("bad-free", "unallocated", "free of arena address that is in no block", true);
        return true;
    }
    Block &b = g_blocks[serial - 1];
    if (d != b.off) {
        add_violation("bad-free", "interior", "free of a pointer into the middle of a block", true);
        return true;
    }
    if (b.state == 1) {
        add_violation("double-free", "", "block freed twice; allocated at " + site_names(b), true);
        return true;
    }
    if (from_lib && b.kind != BK_LIB) {
        add_violation("bad-free", "foreign-kind", "library released memory it did not allocate", true);
        return true;
    }
    if (!canary_ok(b)) {
        add_violation("canary", "at-free", "bytes around a block were overwritten; allocated at " + site_names(b), true);
        memset(A + b.off - RZ, CANARY, RZ);
        memset(A + b.off + b.size, CANARY, b.rsize - b.size + RZ);
    }
    b.state = 1;
    memset(A + b.off, FREED, b.rsize);
    g_frees++;
    g_live_all--;
    if (b.kind == BK_LIB) g_live_lib--;
    if (g_cfg.placement != 0) g_free[b.rsize].push_back(b.off);
    ev(0xF4EE0000ULL ^ (uint64_t(serial) << 8) ^ (g_steps << 32));
    return true;
}

void *alloc_block(size_t bytes, BlockKind kind) {
    RtGuard g;
    return arena_alloc(bytes, kind);
}
void free_block(void *p) {
    if (p == nullptr) return;
    RtGuard g;
    arena_free(p, false);
}
bool in_arena(const void *p) {
    return A != nullptr && (uintptr_t)p - (uintptr_t)A < ASZ;
}
bool readable(const void *p, size_t n) {
    if (n == 0) return true;
    uintptr_t d = (uintptr_t)p - (uintptr_t)A;
    if (d >= ASZ) return false;
    uint32_t serial = G[d / GR];
    if (serial == 0) return false;
    const Block &b = g_blocks[serial - 1];
    return b.state == 0 && d >= b.off && d + n <= size_t(b.off) + b.size;
}
void mark_shared_ro_all() {
    for (auto &b : g_blocks)
        if (b.state == 0) {
            b.shared_ro = 1;
            b.owner     = -1;
        }
}
void clear_shared_ro_all() {
    for (auto &b : g_blocks) {
        b.shared_ro = 0;
        b.owner     = -1;
    }
}
uint64_t digest_shared() {
    uint64_t h = 1469598103934665603ULL;
    for (auto &b : g_blocks) {
        if (b.state != 0 || !b.shared_ro) continue;
        const uint8_t *p = A + b.off;
        h ^= b.size;
        h *= 1099511628211ULL;
        for (uint32_t i = 0; i < b.size; i++) {
            h ^= p[i];
            h *= 1099511628211ULL;
        }
    }
    return h;
}
uint64_t steps_now() {
    return g_steps;
}
size_t stack_hwm() {
    return g_stack_hwm;
}
void set_block_owner_task(void *p, int task) {
    if (p == nullptr) return;
    uintptr_t d = (uintptr_t)p - (uintptr_t)A;
    if (d >= ASZ) return;
    uint32_t serial = G[d / GR];
    if (serial == 0) return;
    Block &b    = g_blocks[serial - 1];
    b.shared_ro = 0;
    b.owner     = (int8_t)task;
}
size_t live_lib_blocks() {
    return g_live_lib;
}
uint32_t heap_serial() {
    return (uint32_t)g_blocks.size();
}
void check_leaks(const char *world) {
    if (g_aborted || g_live_lib == 0) return;
    RtGuard     g;
    std::string sites;
    int         n = 0;
    for (auto &b : g_blocks) {
        if (b.state != 0 || b.kind != BK_LIB) continue;
        if (n < 3) sites += (n ? "; " : "") + site_names(b) + " (" + std::to_string(b.size) + " bytes)";
        n++;
    }
    add_violation("leak", world, std::to_string(n) + " library block(s) still allocated after every object was destroyed: " + sites, false);
}

LibCall::LibCall() {
    prev = g_cur ? g_cur->in_lib : false;
    if (g_cur) g_cur->in_lib = true;
}
LibCall::~LibCall() {
    if (g_cur) g_cur->in_lib = prev;
}

// ---------------------------------------------------------------------------------------------
// race detector for program-image globals
// ---------------------------------------------------------------------------------------------
struct Shadow {
    int8_t   wt{-1};
    uint32_t wc{0};
    uint32_t rc[MAXTASK + 1]{};
};
struct SimMutex {
    int owner{-1};
};
static std::unordered_map<uintptr_t, SimMutex> *g_mutexes = nullptr;
static std::unordered_map<uintptr_t, Shadow> g_shadow;
static std::unordered_map<uintptr_t, VC>     g_sync; // release clocks of sync objects

static inline void vc_join(VC &a, const VC &b) {
    for (int i = 0; i <= MAXTASK; i++)
        if (b.c[i] > a.c[i]) a.c[i] = b.c[i];
}

static void sync_acquire(uintptr_t obj) {
    if (!g_cur) return;
    auto it = g_sync.find(obj);
    if (it != g_sync.end()) vc_join(g_cur->vc, it->second);
}
static void sync_release(uintptr_t obj) {
    if (!g_cur) return;
    VC &v = g_sync[obj];
    vc_join(v, g_cur->vc);
    g_cur->vc.c[g_cur->id]++;
}

static void race_access(uintptr_t addr, size_t size, bool w, uintptr_t pc) {
    if (g_ntasks <= 1 || g_cur == nullptr) return; // single task phases are ordered before/after by spawn/join
    RtGuard g;
    if (!pc_is_lib(pc)) return;
    int me = g_cur->id;
    for (uintptr_t gaddr = addr & ~uintptr_t(7); gaddr < addr + size; gaddr += 8) {
        Shadow &s = g_shadow[gaddr];
        bool    racy = false;
        if (s.wt >= 0 && s.wt != me && s.wc > g_cur->vc.c[s.wt]) racy = true;
        if (w) {
            for (int t = 0; t <= MAXTASK && !racy; t++)
                if (t != me && s.rc[t] > g_cur->vc.c[t]) racy = true;
        }
        if (racy) {
            char key[64];
            snprintf(key, sizeof key, "global+0x%lx", (unsigned long)(gaddr - (uintptr_t)&__executable_start) & ~0xfUL);
            add_violation("race", w ? "write" : "read",
                          std::string("unsynchronised conflicting accesses to a global by two tasks (") + key + ")", true);
        }
        if (w) {
            s.wt = (int8_t)me;
            s.wc = g_cur->vc.c[me];
        } else {
            s.rc[me] = g_cur->vc.c[me];
        }
    }
}

// ---------------------------------------------------------------------------------------------
// scheduler glue
// ---------------------------------------------------------------------------------------------
static void task_yield(uintptr_t pc) {
    Task *t = g_cur;
    g_switches++;
    mix(g_il_hash, (uint64_t)t->id * 1315423911ULL ^ (uint64_t)sym_start(pc));
    bool in_lib = t->in_lib;
    to_scheduler(t);
    if (g_aborted && t->as_thread) park_forever();
    t->in_lib = in_lib;
}

static inline void step_and_maybe_yield(uintptr_t pc) {
    g_steps++;
    if (g_cur) g_cur->steps++;
    if (g_steps > g_cfg.step_budget) {
        if (g_cfg.soft_budget) {
            {
                RtGuard g;
                g_probes["sim.step-budget-run-abandoned"]++;
            }
            abort_run();
        }
        {
            RtGuard g; // (the text below is built by instrumented-callback-free runtime code only while the guard is held)
            add_violation("hang", "step-budget", "run exceeded its step budget (no termination within bounded work); in " + stack_names(3), false);
        }
        abort_run();
    }
    if (g_ntasks > 1) {
        if (g_slice_left != 0 && --g_slice_left == 0) task_yield(pc);
    }
}

// ---------------------------------------------------------------------------------------------
// the access monitor
// ---------------------------------------------------------------------------------------------
static const char *kind_name(uint8_t k) {
    return k == BK_LIB ? "lib" : k == BK_INPUT ? "input" : "object";
}

static void classify_bad(uintptr_t addr, size_t size, bool w, uintptr_t pc) {
    RtGuard g;
    if (!pc_is_lib(pc)) return; // harness code inside a bracket
    if (++g_bad_accesses > 4000) {
        // the run is already condemned (its violations are recorded); a runaway copy would otherwise take minutes
        g_in_rt = false;
        abort_run();
    }
    uintptr_t d = addr - (uintptr_t)A;
    if (d < ASZ) {
        uint32_t serial = G[d / GR];
        if (serial != 0) {
            Block &b = g_blocks[serial - 1];
            if (b.state == 1) {
                add_violation(w ? "uaf-write" : "uaf-read", kind_name(b.kind),
                              "access to a released block; allocated at " + site_names(b), true);
                return;
            }
            if (d < b.off || d + size > size_t(b.off) + b.size) {
                size_t past = d + size - (size_t(b.off) + b.size);
                char   key[64];
                snprintf(key, sizeof key, "%s:%s", kind_name(b.kind), past <= size ? "at-end" : "past-end");
                char det[160];
                snprintf(det, sizeof det, "%zu-byte %s ends %zu byte(s) past the end of a %u-byte %s block", size,
                         w ? "write" : "read", past, b.size, kind_name(b.kind));
                add_violation(w ? "oob-write" : "oob-read", key, det, true);
                return;
            }
            if (w && b.kind == BK_INPUT) {
                add_violation("write-input", "", "library wrote into caller-owned input text", true);
                return;
            }
            if (w && b.shared_ro) {
                add_violation("purity-store", kind_name(b.kind),
                              "store into shared read-only state (value / cache / template) during render; block allocated at " +
                                  site_names(b),
                              true);
                return;
            }
            if (g_ntasks > 1 && g_cur && b.owner >= 0 && b.owner != g_cur->id && !b.shared_ro) {
                add_violation("foreign", w ? "write" : "read", "access to a block private to another task", true);
                return;
            }
            return;
        }
        // no block at the first granule: look for the nearest block before (past-the-end) or after (before-start)
        for (size_t k = 1; k <= (RZ / GR) + 1 && d / GR >= k; k++) {
            uint32_t s2 = G[d / GR - k];
            if (s2) {
                Block &b = g_blocks[s2 - 1];
                size_t past = d + size - (size_t(b.off) + b.size);
                char   key[64];
                snprintf(key, sizeof key, "%s:%s", kind_name(b.kind), past <= size ? "at-end" : "past-end");
                char det[200];
                snprintf(det, sizeof det, "%zu-byte %s ends %zu byte(s) past the end of a %u-byte %s block%s", size,
                         w ? "write" : "read", past, b.size, kind_name(b.kind), b.state ? " (released)" : "");
                add_violation(w ? "oob-write" : "oob-read", key, det, true);
                return;
            }
        }
        for (size_t k = 1; k <= (RZ / GR) + 1 && d / GR + k < ASZ / GR; k++) {
            uint32_t s2 = G[d / GR + k];
            if (s2) {
                Block &b = g_blocks[s2 - 1];
                char   key[64];
                snprintf(key, sizeof key, "%s:before-start", kind_name(b.kind));
                add_violation(w ? "oob-write" : "oob-read", key, "access before the start of a block", true);
                return;
            }
        }
        add_violation(w ? "oob-write" : "oob-read", "arena:unallocated", "access to arena memory that belongs to no block",
                      true);
        return;
    }
    if (addr < 65536) {
        add_violation("null", w ? "write" : "read", "null pointer dereference", true);
        abort_run();
    }
}

static inline void on_access(uintptr_t addr, size_t size, bool w, uintptr_t pc) {
    if (!lib_active()) return;
    uintptr_t d = addr - (uintptr_t)A;
    if (d < ASZ) {
        uint32_t serial = G[d / GR];
        bool     ok     = false;
        if (serial != 0) {
            const Block &b = g_blocks[serial - 1];
            ok = (d >= b.off) && (d + size <= size_t(b.off) + b.size) && (b.state == 0) &&
                 !(w && (b.kind == BK_INPUT || b.shared_ro)) &&
                 (g_ntasks <= 1 || b.owner < 0 || b.shared_ro || b.owner == g_cur->id);
        }
        if (!ok) classify_bad(addr, size, w, pc);
    } else if (addr < 65536) {
        classify_bad(addr, size, w, pc);
    } else if (addr >= (uintptr_t)&__data_start && addr < (uintptr_t)&end) {
        // program image .data / .bss (hidden globals): feed the race detector during task phases
        if (g_ntasks > 1) race_access(addr, size, w, pc);
    }
    step_and_maybe_yield(pc);
}

// ---------------------------------------------------------------------------------------------
// run lifecycle
// ---------------------------------------------------------------------------------------------
static uint8_t *g_stack_base = nullptr;

static void trap_handler(int signo, siginfo_t *si, void *);

void runtime_init() {
    static bool done = false;
    if (done) return;
    done = true;
    A    = (uint8_t *)mmap(nullptr, ASZ, PROT_READ | PROT_WRITE, MAP_PRIVATE | MAP_ANONYMOUS | MAP_NORESERVE, -1, 0);
    G    = (uint32_t *)mmap(nullptr, (ASZ / GR) * sizeof(uint32_t), PROT_READ | PROT_WRITE,
                            MAP_PRIVATE | MAP_ANONYMOUS | MAP_NORESERVE, -1, 0);
    g_stack_base = (uint8_t *)mmap(nullptr, MAXTASK * (STACK_SZ + GUARD_SZ), PROT_READ | PROT_WRITE,
                                   MAP_PRIVATE | MAP_ANONYMOUS | MAP_NORESERVE, -1, 0);
    if (A == MAP_FAILED || G == MAP_FAILED || g_stack_base == MAP_FAILED) {
        perror("qsim mmap");
        _exit(3);
    }
    for (int i = 0; i < MAXTASK; i++) {
        uint8_t *lo = g_stack_base + size_t(i) * (STACK_SZ + GUARD_SZ);
        mprotect(lo, GUARD_SZ, PROT_NONE);
        g_tasks[i].stack_lo = lo + GUARD_SZ;
        g_tasks[i].stack_hi = lo + GUARD_SZ + STACK_SZ;
        g_tasks[i].id       = i;
    }
    // alternate signal stack + handlers
    static uint8_t altstack[1 << 16];
    stack_t        ss;
    ss.ss_sp    = altstack;
    ss.ss_size  = sizeof altstack;
    ss.ss_flags = 0;
    sigaltstack(&ss, nullptr);
    struct sigaction sa;
    memset(&sa, 0, sizeof sa);
    sa.sa_sigaction = trap_handler;
    sa.sa_flags     = SA_SIGINFO | SA_ONSTACK;
    sigemptyset(&sa.sa_mask);
    for (int s : {SIGSEGV, SIGBUS, SIGFPE, SIGILL, SIGABRT, SIGALRM}) sigaction(s, &sa, nullptr);
    sym_mangled(0); // load symbols now (not from a signal handler)
}

void run_begin(const RunCfg &cfg) {
    RtGuard g;
    // reset arena
    if (g_bump) {
        const size_t keep = size_t(32) << 20;
        if (g_bump > keep) {
            // give the physical pages of an unusually large run back
            madvise(A + keep, ((g_bump + RZ - keep) + 4095) & ~size_t(4095), MADV_DONTNEED);
            madvise((uint8_t *)G + (keep / GR) * sizeof(uint32_t), ((((g_bump + RZ - keep) / GR + 1) * sizeof(uint32_t)) + 4095) & ~size_t(4095), MADV_DONTNEED);
            memset(G, 0, (keep / GR) * sizeof(uint32_t));
        } else {
            memset(G, 0, ((g_bump + RZ) / GR + 1) * sizeof(uint32_t));
        }
    }
    g_bump = 0;
    g_blocks.clear();
    g_free.clear();
    g_cfg = cfg;
    g_stall_abandon = false;
    g_heap_rng.reseed(cfg.heap_seed);
    g_live_lib = g_live_all = g_peak_live = g_allocs = g_frees = 0;
    g_memrec_add = g_memrec_remove = 0;
    g_steps = g_switches = 0;
    g_alarm_last_steps = ~0ULL;
    g_bad_accesses     = 0;
    g_hash = 0xcbf29ce484222325ULL;
    g_il_hash = g_obs_hash = 0;
    g_viol.clear();
    g_aborted    = false;
    g_run_active = true;
    g_shadow.clear();
    g_sync.clear();
    g_sync_released = false;
    if (g_mutexes) g_mutexes->clear(); // a run that was abandoned may have left a simulated lock held
    g_exact_fit = false;
    g_ntasks    = 0;
    g_cur       = nullptr;
    g_stack_hwm = 0;
    g_yield_on_event = false;
}

void run_end(RunStats &out) {
    RtGuard g;
    if (!g_aborted) {
        // canaries of all live blocks + leak check is the world's business (it knows when all objects are gone)
        for (auto &b : g_blocks) {
            if (b.state == 0 && !canary_ok(b)) {
                add_violation("canary", "at-end", "bytes around a live block were overwritten; allocated at " + site_names(b),
                              false);
                break;
            }
        }
    }
    out.steps      = g_steps;
    out.allocs     = g_allocs;
    out.frees      = g_frees;
    out.peak_live  = g_peak_live;
    out.switches   = g_switches;
    out.hash       = g_hash;
    out.il_hash    = g_il_hash;
    out.obs_hash   = g_obs_hash;
    out.stack_hwm  = g_stack_hwm;
    out.aborted    = g_aborted;
    out.violations = g_viol;
    g_run_active   = false;
    g_cur          = nullptr;
    g_ntasks       = 0;
}

// leak check helper for worlds: call when every library object has been destroyed
} // namespace qsim
namespace qsim {

// ---------------------------------------------------------------------------------------------
// tasks (fibers)
// ---------------------------------------------------------------------------------------------
static void paint_stack(Task &t, size_t bytes) {
    if (bytes > STACK_SZ) bytes = STACK_SZ;
    t.paint = bytes;
    memset(t.stack_hi - bytes, PAINT, bytes);
}

static size_t measure_stack(Task &t) {
    // deepest modified byte inside the painted area; if the boundary was crossed, look below it page-wise
    const uint8_t *lo = t.stack_hi - t.paint;
    const uint8_t *p  = lo;
    bool crossed = false;
    for (size_t i = 0; i < 256 && i < t.paint; i++)
        if (lo[i] != PAINT) crossed = true;
    if (crossed) {
        // scan downwards page by page for non-zero content (fresh / reset pages are zero)
        const uint8_t *q    = lo;
        const uint8_t *deep = lo;
        int            clean_pages = 0;
        while (q - 4096 >= t.stack_lo && clean_pages < 16) {
            q -= 4096;
            bool any = false;
            for (size_t i = 0; i < 4096; i += 8) {
                uint64_t wv = *(const uint64_t *)(q + i);
                if (wv != 0 && wv != 0xA5A5A5A5A5A5A5A5ULL) { // (paint left by an earlier, larger painted area is not use)
                    any = true;
                    break;
                }
            }
            if (any) {
                deep        = q;
                clean_pages = 0;
            } else
                clean_pages++;
        }
        size_t used = (size_t)(t.stack_hi - deep);
        madvise((void *)deep, (size_t)(lo - deep), MADV_DONTNEED);
        return used;
    }
    const uint8_t *hi = t.stack_hi;
    while (p + 8 <= hi && *(const uint64_t *)p == 0xA5A5A5A5A5A5A5A5ULL) p += 8;
    return (size_t)(hi - p);
}

static void fiber_main(unsigned lo, unsigned hi) {
    Task *t = (Task *)(((uintptr_t)hi << 32) | (uintptr_t)lo);
    t->fn();
    t->done   = true;
    t->in_lib = false;
    swapcontext(&t->ctx, &g_sched_ctx);
    _exit(3); // never resumed
}

static void *thread_main(void *arg) {
    Task *t = (Task *)arg;
    while (sem_wait(&t->sem) != 0) {
    }
    if (g_aborted) park_forever();
    t->fn();
    t->done   = true;
    t->in_lib = false;
    sem_post(&g_sched_sem);
    return nullptr;
}

static void task_prepare_thread(Task &t, const TaskFn &fn, size_t stack_bytes) {
    t.fn         = fn;
    t.done       = false;
    t.started    = false;
    t.in_lib     = false;
    t.sdepth     = 0;
    t.steps      = 0;
    t.blocked_on = 0;
    t.as_thread  = true;
    t.paint      = 0;
    sem_init(&t.sem, 0, 0);
    if (stack_bytes < (size_t(256) << 10)) stack_bytes = size_t(256) << 10;
    t.th_stack_sz = stack_bytes;
    t.th_stack    = mmap(nullptr, stack_bytes, PROT_READ | PROT_WRITE, MAP_PRIVATE | MAP_ANONYMOUS | MAP_STACK, -1, 0);
    pthread_attr_t at;
    pthread_attr_init(&at);
    pthread_attr_setstack(&at, t.th_stack, stack_bytes);
    if (pthread_create(&t.th, &at, thread_main, &t) != 0) {
        fprintf(stderr, "qsim: pthread_create failed\n");
        _exit(3);
    }
    pthread_attr_destroy(&at);
}

static void task_prepare(Task &t, const TaskFn &fn, size_t stack_bytes, size_t paint_bytes) {
    t.as_thread = false;
    t.fn         = fn;
    t.done       = false;
    t.started    = false;
    t.in_lib     = false;
    t.sdepth     = 0;
    t.steps      = 0;
    t.blocked_on = 0;
    if (stack_bytes > STACK_SZ) stack_bytes = STACK_SZ;
    if (paint_bytes > stack_bytes) paint_bytes = stack_bytes;
    paint_stack(t, paint_bytes);
    getcontext(&t.ctx);
    t.ctx.uc_stack.ss_sp   = t.stack_hi - stack_bytes;
    t.ctx.uc_stack.ss_size = stack_bytes;
    t.ctx.uc_link          = nullptr;
    uintptr_t p            = (uintptr_t)&t;
    makecontext(&t.ctx, (void (*)())fiber_main, 2, (unsigned)(p & 0xffffffffu), (unsigned)(p >> 32));
}

static size_t g_single_paint = 64 * 1024;

void run_single(const TaskFn &fn, size_t stack_bytes) {
    if (g_aborted) return;
    Task &t = g_tasks[0];
    memset(&t.vc, 0, sizeof t.vc);
    // only the top of a large stack is painted; below it pages are zero (fresh mapping, or given back by
    // measure_stack after a run that went deeper) and the high-water mark is found page-wise
    size_t paint = stack_bytes > (size_t(1) << 20) ? (size_t(256) << 10) : std::min(stack_bytes, g_single_paint);
    task_prepare(t, fn, stack_bytes, paint);
    g_ntasks     = 1;
    g_slice_left = 0;
    g_cur        = &t;
    swapcontext(&g_sched_ctx, &t.ctx);
    g_cur = nullptr;
    size_t used = measure_stack(t);
    if (used > g_stack_hwm) g_stack_hwm = used;
    g_ntasks = 0;
}

void run_tasks(std::vector<TaskSpec> &specs, Plan &plan) {
    if (g_aborted) return;
    int n = (int)specs.size();
    if (n > MAXTASK) n = MAXTASK;
    const int  strategy = (int)plan.get("sched", 1);
    const int  mean     = (int)std::max<int64_t>(1, plan.get("slice", 30));
    const bool replay   = plan.sched_explicit;
    size_t     ri       = 0;
    if (!replay) plan.sched.clear();
    g_sched_rng.reseed(derive(plan.seed, "sched"));
    if (g_threads && !g_sched_sem_init) {
        sem_init(&g_sched_sem, 0, 0);
        g_sched_sem_init = true;
    }
    for (int i = 0; i < n; i++) {
        Task &t = g_tasks[i];
        memset(&t.vc, 0, sizeof t.vc);
        t.vc.c[i] = 1;
        if (g_threads)
            task_prepare_thread(t, specs[(size_t)i].fn, specs[(size_t)i].stack_bytes);
        else
            task_prepare(t, specs[(size_t)i].fn, specs[(size_t)i].stack_bytes, 64 * 1024);
    }
    g_ntasks = n;
    g_yield_on_event = (!replay && strategy == 3);
    // PCT state
    int      prio[MAXTASK];
    uint64_t change[4] = {~0ULL, ~0ULL, ~0ULL, ~0ULL};
    int      nchange   = 0;
    if (!replay && strategy == 2) {
        for (int i = 0; i < n; i++) prio[i] = i + 8;
        for (int i = n - 1; i > 0; i--) std::swap(prio[i], prio[g_sched_rng.below((uint64_t)i + 1)]);
        uint64_t est = (uint64_t)std::max<int64_t>(100, plan.get("est_steps", 20000));
        nchange      = (int)std::min<int64_t>(3, std::max<int64_t>(1, plan.get("pct_d", 2)));
        for (int i = 0; i < nchange; i++) change[i] = g_sched_rng.below(est);
        std::sort(change, change + nchange);
    }
    uint64_t phase_start = g_steps;
    int      low_prio    = 0;
    while (!g_aborted) {
        int runnable[MAXTASK], nr = 0;
        bool any_left = false;
        for (int i = 0; i < n; i++) {
            if (g_tasks[i].done) continue;
            any_left = true;
            if (g_tasks[i].blocked_on == 0) runnable[nr++] = i;
        }
        if (!any_left) break;
        if (nr == 0) {
            add_violation("deadlock", "", "all unfinished tasks are blocked", false);
            g_aborted = true;
            break;
        }
        int      pick  = runnable[0];
        uint64_t steps = 0; // 0 = unlimited
        if (replay) {
            bool found = false;
            while (ri < plan.sched.size()) {
                Slice sl = plan.sched[ri++];
                if (sl.task < 0 || sl.task >= n || g_tasks[sl.task].done || g_tasks[sl.task].blocked_on) continue;
                pick  = sl.task;
                steps = sl.steps;
                found = true;
                break;
            }
            if (!found) {
                pick  = runnable[0];
                steps = 0;
            }
        } else {
            switch (strategy) {
                case 0: pick = runnable[0]; steps = 0; break;
                case 2: {
                    int best = runnable[0];
                    for (int k = 1; k < nr; k++)
                        if (prio[runnable[k]] > prio[best]) best = runnable[k];
                    pick          = best;
                    uint64_t done = g_steps - phase_start;
                    steps         = 0;
                    for (int c = 0; c < nchange; c++) {
                        if (change[c] != ~0ULL && change[c] <= done) {
                            // change point reached while this task was running last: demote it
                            change[c] = ~0ULL;
                        }
                    }
                    for (int c = 0; c < nchange; c++)
                        if (change[c] != ~0ULL) {
                            steps = change[c] - done;
                            if (steps == 0) steps = 1;
                            break;
                        }
                    break;
                }
                case 3: pick = runnable[g_sched_rng.below((uint64_t)nr)]; steps = 0; break;
                default: {
                    pick = runnable[g_sched_rng.below((uint64_t)nr)];
                    // geometric-ish slice length with the configured mean
                    uint64_t r = g_sched_rng.next();
                    double   u = (double)(r >> 11) / (double)(1ULL << 53);
                    steps      = 1 + (uint64_t)(-__builtin_log(1.0 - u) * mean);
                }
            }
        }
        Task    &t      = g_tasks[pick];
        uint64_t before = t.steps;
        g_slice_left    = steps;
        g_cur           = &t;
        t.started       = true;
        to_task(&t);
        g_cur        = nullptr;
        uint64_t ran = t.steps - before;
        ev(0x5C4ED000ULL ^ ((uint64_t)pick << 40) ^ ran);
        if (!replay) {
            if (!plan.sched.empty() && plan.sched.back().task == pick)
                plan.sched.back().steps += (uint32_t)ran;
            else
                plan.sched.push_back(Slice{pick, (uint32_t)ran});
            if (strategy == 2) {
                // a PCT slice that ended at a change point demotes the task that was running
                uint64_t done = g_steps - phase_start;
                for (int c = 0; c < nchange; c++)
                    if (change[c] != ~0ULL && change[c] <= done) {
                        change[c]  = ~0ULL;
                        prio[pick] = low_prio--;
                    }
            }
        }
        // wake blocked tasks only after something was released (otherwise a high-priority waiter would be picked
        // again and again while the owner never runs)
        if (g_sync_released) {
            g_sync_released = false;
            for (int i = 0; i < n; i++)
                if (g_tasks[i].blocked_on == 1) g_tasks[i].blocked_on = 0;
        }
    }
    for (int i = 0; i < n; i++) {
        Task &t = g_tasks[i];
        if (t.as_thread) {
            if (t.done) {
                pthread_join(t.th, nullptr);
                munmap(t.th_stack, t.th_stack_sz);
            } else {
                pthread_detach(t.th); // parked for ever; its stack stays mapped
            }
            sem_destroy(&t.sem);
            t.as_thread = false;
            continue;
        }
        size_t used = measure_stack(t);
        if (used > g_stack_hwm) g_stack_hwm = used;
    }
    plan.sched_explicit = true;
    g_ntasks            = 0;
    g_cur               = nullptr;
    g_slice_left        = 0;
    g_yield_on_event    = false;
}

// ---------------------------------------------------------------------------------------------
// trap handling
// ---------------------------------------------------------------------------------------------
static void hexu(char *&p, uint64_t v) {
    char tmp[20];
    int  n = 0;
    do {
        tmp[n++] = "0123456789abcdef"[v & 15];
        v >>= 4;
    } while (v);
    while (n) *p++ = tmp[--n];
}
static void decu(char *&p, uint64_t v) {
    char tmp[24];
    int  n = 0;
    do {
        tmp[n++] = (char)('0' + v % 10);
        v /= 10;
    } while (v);
    while (n) *p++ = tmp[--n];
}
static void puts_(char *&p, const char *s) {
    while (*s) *p++ = *s++;
}

static void trap_handler(int signo, siginfo_t *si, void *uctx) {
    char  buf[1024];
    char *p = buf;
    if (signo == SIGALRM) {
        // wall-clock watchdog: slow is not stuck. While the step clock advances, termination is the step budget's
        // business; only a run whose step clock stands still (a loop without any instrumented access) is a hang.
        if (g_steps != g_alarm_last_steps) {
            g_alarm_last_steps = g_steps;
            alarm(20);
            return;
        }
        if (g_cfg.soft_budget || g_stall_abandon) {
            // the world declared this input legitimately astronomical: abandoned, not reported
            puts_(p, "ABANDON run=");
            decu(p, g_run_index);
            puts_(p, " seed=");
            decu(p, g_run_seed);
            puts_(p, " world=");
            puts_(p, g_run_world[0] ? g_run_world : "-");
            puts_(p, "\n");
            ssize_t r = write(g_result_fd, buf, (size_t)(p - buf));
            (void)r;
            _exit(71);
        }
    }
    puts_(p, "TRAP run=");
    decu(p, g_run_index);
    puts_(p, " seed=");
    decu(p, g_run_seed);
    puts_(p, " world=");
    puts_(p, g_run_world[0] ? g_run_world : "-");
    puts_(p, " signo=");
    decu(p, (uint64_t)signo);
    const char *kind = "other";
    uintptr_t   fa   = (uintptr_t)si->si_addr;
    if (signo == SIGSEGV || signo == SIGBUS) {
        if (fa < 65536)
            kind = "null";
        else if (g_cur && fa >= (uintptr_t)g_cur->stack_lo - GUARD_SZ && fa < (uintptr_t)g_cur->stack_lo + 4096)
            kind = "stack-overflow";
        else if (fa - (uintptr_t)A < ASZ)
            kind = "arena";
        else
            kind = "wild";
    } else if (signo == SIGFPE) {
        kind = (si->si_code == FPE_INTDIV) ? "intdiv" : "fpe";
    } else if (signo == SIGALRM) {
        kind = "timeout";
    }
    puts_(p, " kind=");
    puts_(p, kind);
    puts_(p, " inlib=");
    decu(p, (g_cur && g_cur->in_lib) ? 1 : 0);
    puts_(p, " pcs=");
    // faulting pc first
#if defined(__x86_64__)
    ucontext_t *uc = (ucontext_t *)uctx;
    hexu(p, (uint64_t)uc->uc_mcontext.gregs[REG_RIP]);
#else
    (void)uctx;
    hexu(p, 0);
#endif
    if (g_cur) {
        int n = 0;
        for (int i = (g_cur->sdepth < SSDEPTH ? g_cur->sdepth : SSDEPTH) - 1; i >= 0 && n < 12; i--, n++) {
            *p++ = ',';
            hexu(p, g_cur->ss[i]);
        }
    }
    *p++ = '\n';
    ssize_t r = write(g_result_fd, buf, (size_t)(p - buf));
    (void)r;
    _exit(70);
}

// ---------------------------------------------------------------------------------------------
// coverage (trace-pc-guard)
// ---------------------------------------------------------------------------------------------
static uint8_t *g_cov      = nullptr;
static size_t   g_cov_n    = 0;
static size_t   g_cov_hits = 0;

size_t cov_total_guards() {
    return g_cov_n;
}
size_t cov_hit_count() {
    return g_cov_hits;
}
void cov_dump(const char *path) {
    FILE *f = fopen(path, "wb");
    if (!f) return;
    if (g_cov_n) fwrite(g_cov, 1, g_cov_n + 1, f);
    fclose(f);
}
void cov_reset() {
    if (g_cov) memset(g_cov, 0, g_cov_n + 1);
    g_cov_hits = 0;
}

} // namespace qsim

using namespace qsim;

// =============================================================================================
// entry points called by instrumented code
// =============================================================================================
extern "C" {

int qentem_verif_exact_fit() {
    // exact-fit growth makes every append reallocate; under quarantine that is quadratic in memory, so the knob
    // switches itself off once a run has used 32 MiB of arena
    return (g_exact_fit && g_bump < (size_t(32) << 20)) ? 1 : 0;
}

void qsim_memrec_add(void *) {
    if (lib_active() || (g_cur && g_cur->in_lib)) g_memrec_add++;
}
void qsim_memrec_remove(void *) {
    if (lib_active() || (g_cur && g_cur->in_lib)) g_memrec_remove++;
}

void __sanitizer_cov_trace_pc_guard_init(uint32_t *start, uint32_t *stop) {
    if (start == stop || *start) return;
    uint32_t n = (uint32_t)g_cov_n;
    for (uint32_t *x = start; x < stop; x++) *x = ++n;
    g_cov_n = n;
    g_cov   = (uint8_t *)realloc(g_cov, g_cov_n + 1);
    memset(g_cov, 0, g_cov_n + 1);
}
void __sanitizer_cov_trace_pc_guard(uint32_t *guard) {
    uint32_t id = *guard;
    if (!id) return;
    if (!g_cov[id]) {
        g_cov[id] = 1;
        g_cov_hits++;
    }
    *guard = 0; // first hit only
}

void __tsan_init() {
}
void __tsan_func_entry(void *) {
    Task *t = g_cur;
    if (t == nullptr || !t->in_lib) return;
    if (t->sdepth < SSDEPTH) t->ss[t->sdepth] = (uintptr_t)__builtin_return_address(0);
    t->sdepth++;
}
void __tsan_func_exit() {
    Task *t = g_cur;
    if (t == nullptr || !t->in_lib) return;
    if (t->sdepth > 0) t->sdepth--;
}

#define RA ((uintptr_t)__builtin_return_address(0))
void __tsan_read1(void *a) { on_access((uintptr_t)a, 1, false, RA); }
void __tsan_read2(void *a) { on_access((uintptr_t)a, 2, false, RA); }
void __tsan_read4(void *a) { on_access((uintptr_t)a, 4, false, RA); }
void __tsan_read8(void *a) { on_access((uintptr_t)a, 8, false, RA); }
void __tsan_read16(void *a) { on_access((uintptr_t)a, 16, false, RA); }
void __tsan_write1(void *a) { on_access((uintptr_t)a, 1, true, RA); }
void __tsan_write2(void *a) { on_access((uintptr_t)a, 2, true, RA); }
void __tsan_write4(void *a) { on_access((uintptr_t)a, 4, true, RA); }
void __tsan_write8(void *a) { on_access((uintptr_t)a, 8, true, RA); }
void __tsan_write16(void *a) { on_access((uintptr_t)a, 16, true, RA); }
void __tsan_unaligned_read2(void *a) { on_access((uintptr_t)a, 2, false, RA); }
void __tsan_unaligned_read4(void *a) { on_access((uintptr_t)a, 4, false, RA); }
void __tsan_unaligned_read8(void *a) { on_access((uintptr_t)a, 8, false, RA); }
void __tsan_unaligned_read16(void *a) { on_access((uintptr_t)a, 16, false, RA); }
void __tsan_unaligned_write2(void *a) { on_access((uintptr_t)a, 2, true, RA); }
void __tsan_unaligned_write4(void *a) { on_access((uintptr_t)a, 4, true, RA); }
void __tsan_unaligned_write8(void *a) { on_access((uintptr_t)a, 8, true, RA); }
void __tsan_unaligned_write16(void *a) { on_access((uintptr_t)a, 16, true, RA); }
void __tsan_read_range(void *a, unsigned long n) {
    if (n) on_access((uintptr_t)a, n, false, RA);
}
void __tsan_write_range(void *a, unsigned long n) {
    if (n) on_access((uintptr_t)a, n, true, RA);
}
void __tsan_vptr_update(void **a, void *) { on_access((uintptr_t)a, 8, true, RA); }
void __tsan_vptr_read(void **a) { on_access((uintptr_t)a, 8, false, RA); }

// ---- atomics: sequentially consistent under the serialising scheduler; they carry happens-before
#define QSIM_ATOMIC(T, N)                                                                                           \
    T __tsan_atomic##N##_load(const volatile T *a, int) {                                                           \
        if (lib_active()) {                                                                                         \
            RtGuard g;                                                                                              \
            sync_acquire((uintptr_t)a);                                                                             \
        }                                                                                                           \
        return *a;                                                                                                  \
    }                                                                                                               \
    void __tsan_atomic##N##_store(volatile T *a, T v, int) {                                                        \
        if (lib_active()) {                                                                                         \
            RtGuard g;                                                                                              \
            sync_release((uintptr_t)a);                                                                             \
        }                                                                                                           \
        *a = v;                                                                                                     \
    }                                                                                                               \
    T __tsan_atomic##N##_exchange(volatile T *a, T v, int) {                                                        \
        if (lib_active()) {                                                                                         \
            RtGuard g;                                                                                              \
            sync_acquire((uintptr_t)a);                                                                             \
            sync_release((uintptr_t)a);                                                                             \
        }                                                                                                           \
        T o = *a;                                                                                                   \
        *a  = v;                                                                                                    \
        return o;                                                                                                   \
    }                                                                                                               \
    T __tsan_atomic##N##_fetch_add(volatile T *a, T v, int) {                                                       \
        if (lib_active()) {                                                                                         \
            RtGuard g;                                                                                              \
            sync_acquire((uintptr_t)a);                                                                             \
            sync_release((uintptr_t)a);                                                                             \
        }                                                                                                           \
        T o = *a;                                                                                                   \
        *a  = (T)(o + v);                                                                                           \
        return o;                                                                                                   \
    }                                                                                                               \
    T __tsan_atomic##N##_fetch_sub(volatile T *a, T v, int) {                                                       \
        if (lib_active()) {                                                                                         \
            RtGuard g;                                                                                              \
            sync_acquire((uintptr_t)a);                                                                             \
            sync_release((uintptr_t)a);                                                                             \
        }                                                                                                           \
        T o = *a;                                                                                                   \
        *a  = (T)(o - v);                                                                                           \
        return o;                                                                                                   \
    }                                                                                                               \
    T __tsan_atomic##N##_fetch_and(volatile T *a, T v, int) {                                                       \
        T o = *a;                                                                                                   \
        *a  = (T)(o & v);                                                                                           \
        return o;                                                                                                   \
    }                                                                                                               \
    T __tsan_atomic##N##_fetch_or(volatile T *a, T v, int) {                                                        \
        T o = *a;                                                                                                   \
        *a  = (T)(o | v);                                                                                           \
        return o;                                                                                                   \
    }                                                                                                               \
    T __tsan_atomic##N##_fetch_xor(volatile T *a, T v, int) {                                                       \
        T o = *a;                                                                                                   \
        *a  = (T)(o ^ v);                                                                                           \
        return o;                                                                                                   \
    }                                                                                                               \
    int __tsan_atomic##N##_compare_exchange_strong(volatile T *a, T *c, T v, int, int) {                            \
        if (lib_active()) {                                                                                         \
            RtGuard g;                                                                                              \
            sync_acquire((uintptr_t)a);                                                                             \
            sync_release((uintptr_t)a);                                                                             \
        }                                                                                                           \
        if (*a == *c) {                                                                                             \
            *a = v;                                                                                                 \
            return 1;                                                                                               \
        }                                                                                                           \
        *c = *a;                                                                                                    \
        return 0;                                                                                                   \
    }                                                                                                               \
    int __tsan_atomic##N##_compare_exchange_weak(volatile T *a, T *c, T v, int mo, int fmo) {                       \
        return __tsan_atomic##N##_compare_exchange_strong(a, c, v, mo, fmo);                                        \
    }                                                                                                               \
    T __tsan_atomic##N##_compare_exchange_val(volatile T *a, T c, T v, int mo, int fmo) {                           \
        __tsan_atomic##N##_compare_exchange_strong(a, &c, v, mo, fmo);                                              \
        return c;                                                                                                   \
    }
QSIM_ATOMIC(uint8_t, 8)
QSIM_ATOMIC(uint16_t, 16)
QSIM_ATOMIC(uint32_t, 32)
QSIM_ATOMIC(uint64_t, 64)
void __tsan_atomic_thread_fence(int) {
}
void __tsan_atomic_signal_fence(int) {
}

// ---- memory intrinsics emitted by the compiler for aggregate copies (linked with -Wl,--wrap)
void *__real_memcpy(void *, const void *, size_t);
void *__real_memmove(void *, const void *, size_t);
void *__real_memset(void *, int, size_t);
void *__wrap_memcpy(void *d, const void *s, size_t n) {
    if (n && lib_active()) {
        on_access((uintptr_t)s, n, false, RA);
        on_access((uintptr_t)d, n, true, RA);
    }
    return __real_memcpy(d, s, n);
}
void *__wrap_memmove(void *d, const void *s, size_t n) {
    if (n && lib_active()) {
        on_access((uintptr_t)s, n, false, RA);
        on_access((uintptr_t)d, n, true, RA);
    }
    return __real_memmove(d, s, n);
}
void *__wrap_memset(void *d, int c, size_t n) {
    if (n && lib_active()) on_access((uintptr_t)d, n, true, RA);
    return __real_memset(d, c, n);
}

// ---- simulated synchronisation: function-local static guards and pthread mutexes
int  __real___cxa_guard_acquire(uint64_t *);
void __real___cxa_guard_release(uint64_t *);
void __real___cxa_guard_abort(uint64_t *);
int  __wrap___cxa_guard_acquire(uint64_t *g) {
    if (!lib_active()) return __real___cxa_guard_acquire(g);
    for (;;) {
        uint8_t *b = (uint8_t *)g;
        if (b[0] != 0) {
            RtGuard r;
            sync_acquire((uintptr_t)g);
            return 0;
        }
        if (b[1] == 0) {
            b[1] = (uint8_t)(1 + g_cur->id); // in progress, owned by this task
            return 1;
        }
        if (g_ntasks <= 1) return 1; // recursive init; let the real code deal with it
        g_cur->blocked_on = 1;
        task_yield(RA);
    }
}
void __wrap___cxa_guard_release(uint64_t *g) {
    if (!lib_active()) {
        __real___cxa_guard_release(g);
        return;
    }
    uint8_t *b = (uint8_t *)g;
    {
        RtGuard r;
        sync_release((uintptr_t)g);
    }
    b[1] = 0;
    b[0] = 1;
    g_sync_released = true;
}
void __wrap___cxa_guard_abort(uint64_t *g) {
    if (!lib_active()) {
        __real___cxa_guard_abort(g);
        return;
    }
    ((uint8_t *)g)[1] = 0;
    g_sync_released   = true;
}

int  __real_pthread_mutex_lock(void *);
int  __real_pthread_mutex_unlock(void *);
int  __real_pthread_mutex_trylock(void *);
int  __wrap_pthread_mutex_lock(void *m) {
    if (!lib_active()) return __real_pthread_mutex_lock(m);
    for (;;) {
        {
            RtGuard r;
            if (!g_mutexes) g_mutexes = new std::unordered_map<uintptr_t, SimMutex>();
            SimMutex &sm = (*g_mutexes)[(uintptr_t)m];
            if (sm.owner == -1) {
                sm.owner = g_cur->id;
                sync_acquire((uintptr_t)m);
                return 0;
            }
        }
        if (g_ntasks <= 1) return 35; // EDEADLK
        g_cur->blocked_on = 1;
        task_yield(RA);
    }
}
int __wrap_pthread_mutex_trylock(void *m) {
    if (!lib_active()) return __real_pthread_mutex_trylock(m);
    RtGuard r;
    if (!g_mutexes) g_mutexes = new std::unordered_map<uintptr_t, SimMutex>();
    SimMutex &sm = (*g_mutexes)[(uintptr_t)m];
    if (sm.owner == -1) {
        sm.owner = g_cur->id;
        sync_acquire((uintptr_t)m);
        return 0;
    }
    return 16; // EBUSY
}
int __wrap_pthread_mutex_unlock(void *m) {
    if (!lib_active()) return __real_pthread_mutex_unlock(m);
    RtGuard r;
    if (!g_mutexes) g_mutexes = new std::unordered_map<uintptr_t, SimMutex>();
    SimMutex &sm = (*g_mutexes)[(uintptr_t)m];
    sm.owner     = -1;
    sync_release((uintptr_t)m);
    g_sync_released = true;
    return 0;
}

} // extern "C"

// =============================================================================================
// global operator new / delete
// =============================================================================================
static void *qsim_new(size_t size) {
    if (lib_active()) {
        void *p;
        {
            RtGuard g;
            p = arena_alloc(size, BK_LIB);
        }
        g_steps++;
        if (g_cur) g_cur->steps++;
        if (g_ntasks > 1) {
            if (g_yield_on_event && g_sched_rng.chance(1, 2)) {
                task_yield((uintptr_t)__builtin_return_address(0));
            } else if (g_slice_left != 0 && --g_slice_left == 0) {
                task_yield((uintptr_t)__builtin_return_address(0));
            }
        }
        return p;
    }
    void *p = malloc(size ? size : 1);
    if (!p) {
        fprintf(stderr, "qsim: out of memory\n");
        _exit(3);
    }
    return p;
}

static void qsim_delete(void *p) {
    if (p == nullptr) return;
    if (in_arena(p)) {
        bool from_lib = lib_active();
        {
            RtGuard g;
            arena_free(p, from_lib);
        }
        if (from_lib) {
            g_steps++;
            if (g_cur) g_cur->steps++;
            if (g_ntasks > 1) {
                if (g_yield_on_event && g_sched_rng.chance(1, 2)) {
                    task_yield((uintptr_t)__builtin_return_address(0));
                } else if (g_slice_left != 0 && --g_slice_left == 0) {
                    task_yield((uintptr_t)__builtin_return_address(0));
                }
            }
        }
        return;
    }
    free(p);
}

void *operator new(size_t n) {
    return qsim_new(n);
}
void *operator new[](size_t n) {
    return qsim_new(n);
}
void *operator new(size_t n, const std::nothrow_t &) noexcept {
    return qsim_new(n);
}
void *operator new[](size_t n, const std::nothrow_t &) noexcept {
    return qsim_new(n);
}
void operator delete(void *p) noexcept {
    qsim_delete(p);
}
void operator delete[](void *p) noexcept {
    qsim_delete(p);
}
void operator delete(void *p, size_t) noexcept {
    qsim_delete(p);
}
void operator delete[](void *p, size_t) noexcept {
    qsim_delete(p);
}
