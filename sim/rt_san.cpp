// qsim runtime for the sanitizer twin flavour (DESIGN §3.9): same world code and plans, but the heap is
// ASan's, there is no access callback (so no fine-grained schedule and no step clock) and tasks of a plan run
// one after another. Its only job is to surface what the access monitor cannot see: stack / global overruns,
// over-reads of string literals, and the UBSan subset.
#include "rt_int.hpp"

#include <csetjmp>
#include <csignal>
#include <cstdio>
#include <cstdlib>
#include <unistd.h>

extern "C" void *__asan_region_is_poisoned(void *beg, size_t size);

namespace qsim {

static bool                            g_in_lib    = false;
static bool                            g_aborted   = false;
static bool                            g_exact_fit = false;
static uint64_t                        g_exact_fit_calls = 0;
static uint64_t                        g_hash = 0, g_obs_hash = 0;
static std::vector<Violation>          g_viol;
static std::map<std::string, uint64_t> g_probes;
static int                             g_result_fd = 1;
static uint64_t                        g_run_index = 0, g_run_seed = 0;
static char                            g_run_world[64] = {0};
static int64_t                         g_lib_live = 0;
static uint64_t                        g_allocs = 0, g_frees = 0;
static jmp_buf                         g_jmp;
static bool                            g_jmp_armed = false;
static int                             g_task      = 0;

void set_result_fd(int fd) {
    g_result_fd = fd;
}
void set_current_run_info(uint64_t index, uint64_t seed, const char *world) {
    g_run_index = index;
    g_run_seed  = seed;
    strncpy(g_run_world, world, sizeof(g_run_world) - 1);
}
const std::map<std::string, uint64_t> &probe_counts() {
    return g_probes;
}
void probe(const char *name, uint64_t n) {
    g_probes[name] += n;
}
void set_exact_fit(bool on) {
    g_exact_fit = on;
}
void set_soft_budget(bool) {
}
void set_stall_abandon(bool) {
}
int current_task() {
    return g_task;
}
void set_backend_threads(bool) {
}
bool backend_threads() {
    return false;
}
static inline void mix(uint64_t &h, uint64_t x) {
    h ^= x + 0x9E3779B97F4A7C15ULL + (h << 6) + (h >> 2);
    h *= 0xFF51AFD7ED558CCDULL;
    h ^= h >> 29;
}
void ev(uint64_t x) {
    mix(g_hash, x);
}
void obs(uint64_t x) {
    mix(g_obs_hash, x);
    mix(g_hash, x);
}

static void emit_line(const std::string &line) {
    ssize_t r = write(g_result_fd, line.data(), line.size());
    (void)r;
}
void report(const char *cls, const std::string &key, const std::string &detail) {
    std::string sig = std::string(cls) + "|" + key;
    for (auto &v : g_viol)
        if (v.sig == sig) return;
    if (g_viol.size() >= 24) return;
    Violation v;
    v.cls    = cls;
    v.sig    = sig;
    v.detail = detail;
    g_viol.push_back(v);
    char buf[160];
    snprintf(buf, sizeof buf, "VIOL run=%llu seed=%llu world=%s sig=", (unsigned long long)g_run_index,
             (unsigned long long)g_run_seed, g_run_world);
    emit_line(std::string(buf) + hex_encode(sig) + " detail=" + hex_encode(detail) + "\n");
}
bool run_aborted() {
    return g_aborted;
}
[[noreturn]] void abort_run() {
    g_aborted = true;
    g_in_lib  = false;
    if (g_jmp_armed) longjmp(g_jmp, 1);
    _exit(3);
}

void *alloc_block(size_t bytes, BlockKind) {
    void *p = malloc(bytes ? bytes : 1);
    if (bytes == 0) {
        // zero-length block: every access must be out of bounds -> use a 1-byte block and poison nothing;
        // ASan cannot express a zero-size allocation, the trace flavour covers it exactly
    }
    return p;
}
void free_block(void *p) {
    free(p);
}
bool in_arena(const void *) {
    return false;
}
bool readable(const void *p, size_t n) {
    if (n == 0) return true;
    if (p == nullptr) return false;
    return __asan_region_is_poisoned((void *)p, n) == nullptr;
}
void mark_shared_ro_all() {
}
void clear_shared_ro_all() {
}
void set_block_owner_task(void *, int) {
}
uint64_t digest_shared() {
    return 0;
}
uint64_t steps_now() {
    return 0;
}
size_t stack_hwm() {
    return 0;
}
size_t live_lib_blocks() {
    return g_lib_live > 0 ? (size_t)g_lib_live : 0;
}
uint32_t heap_serial() {
    return (uint32_t)g_allocs;
}
void check_leaks(const char *world) {
    if (g_aborted || g_lib_live <= 0) return;
    report("leak", world, std::to_string(g_lib_live) + " library block(s) still allocated after every object was destroyed");
}

LibCall::LibCall() {
    prev     = g_in_lib;
    g_in_lib = true;
}
LibCall::~LibCall() {
    g_in_lib = prev;
}

static void trap_handler(int signo, siginfo_t *, void *) {
    char buf[256];
    if (signo == SIGALRM) {
        // this flavour has no step clock: a run that exceeds the wall-clock cap is abandoned, never reported
        int     n = snprintf(buf, sizeof buf, "ABANDON run=%llu seed=%llu world=%s\n", (unsigned long long)g_run_index,
                             (unsigned long long)g_run_seed, g_run_world[0] ? g_run_world : "-");
        ssize_t r = write(g_result_fd, buf, (size_t)n);
        (void)r;
        _exit(71);
    }
    int  n = snprintf(buf, sizeof buf, "TRAP run=%llu seed=%llu world=%s signo=%d kind=%s inlib=%d pcs=0\n",
                      (unsigned long long)g_run_index, (unsigned long long)g_run_seed, g_run_world[0] ? g_run_world : "-", signo,
                      signo == SIGFPE ? "fpe" : signo == SIGALRM ? "timeout" : signo == SIGSEGV ? "segv" : "other", g_in_lib ? 1 : 0);
    ssize_t r = write(g_result_fd, buf, (size_t)n);
    (void)r;
    _exit(70);
}

void runtime_init() {
    static bool done = false;
    if (done) return;
    done = true;
    static uint8_t altstack[1 << 16];
    stack_t        ss;
    ss.ss_sp    = altstack;
    ss.ss_size  = sizeof altstack;
    ss.ss_flags = 0;
    sigaltstack(&ss, nullptr);
    struct sigaction sa;
    memset(&sa, 0, sizeof sa);
    sa.sa_sigaction = trap_handler;
    sa.sa_flags     = SA_SIGINFO | SA_ONSTACK;
    sigemptyset(&sa.sa_mask);
    for (int s : {SIGSEGV, SIGBUS, SIGFPE, SIGILL, SIGABRT, SIGALRM}) sigaction(s, &sa, nullptr);
    sym_mangled(0);
}

void run_begin(const RunCfg &) {
    g_hash     = 0xcbf29ce484222325ULL;
    g_obs_hash = 0;
    g_viol.clear();
    g_aborted   = false;
    g_exact_fit = false;
    g_exact_fit_calls = 0;
    g_lib_live  = 0;
    g_allocs = g_frees = 0;
    g_in_lib           = false;
}
void run_end(RunStats &out) {
    out.steps      = 0;
    out.allocs     = g_allocs;
    out.frees      = g_frees;
    out.hash       = g_hash;
    out.obs_hash   = g_obs_hash;
    out.aborted    = g_aborted;
    out.violations = g_viol;
}

void run_single(const TaskFn &fn, size_t) {
    if (g_aborted) return;
    g_task      = 0;
    g_jmp_armed = true;
    if (setjmp(g_jmp) == 0) fn();
    g_jmp_armed = false;
}
void run_tasks(std::vector<TaskSpec> &tasks, Plan &plan) {
    // no interleaving in this flavour: tasks run one after another
    for (size_t i = 0; i < tasks.size() && !g_aborted; i++) {
        g_task      = (int)i;
        g_jmp_armed = true;
        if (setjmp(g_jmp) == 0) tasks[i].fn();
        g_jmp_armed = false;
    }
    g_task = 0;
    (void)plan;
}

size_t cov_total_guards() {
    return 0;
}
size_t cov_hit_count() {
    return 0;
}
void cov_dump(const char *) {
}
void cov_reset() {
}

} // namespace qsim

using namespace qsim;

extern "C" {
int qentem_verif_exact_fit() {
    // exact-fit growth makes every append reallocate and copy: quadratic for large outputs (a 277 KB render took more
    // than the 20 s wall cap under ASan). As in the trace runtime the knob switches itself off once a run has made
    // heavy use of it (there by arena bytes, here by the number of growth decisions).
    return (g_exact_fit && ++g_exact_fit_calls <= 4096) ? 1 : 0;
}
void qsim_memrec_add(void *) {
    if (g_in_lib) {
        g_lib_live++;
        g_allocs++;
    }
}
void qsim_memrec_remove(void *) {
    if (g_in_lib) {
        g_lib_live--;
        g_frees++;
    }
}
// called by ASan before it prints a report: say which run it was
void __asan_on_error() {
    char buf[160];
    int  n = snprintf(buf, sizeof buf, "QSIM-RUN run=%llu seed=%llu world=%s\n", (unsigned long long)g_run_index,
                      (unsigned long long)g_run_seed, g_run_world[0] ? g_run_world : "-");
    ssize_t r = write(2, buf, (size_t)n);
    (void)r;
}
// called by UBSan when it reports: same purpose
void __ubsan_on_report() {
    __asan_on_error();
}
const char *__asan_default_options() {
    return "exitcode=77:detect_leaks=0:handle_abort=0:handle_segv=0:handle_sigfpe=0:handle_sigbus=0:handle_sigill=0:"
           "detect_stack_use_after_return=0:allocator_may_return_null=1";
}
const char *__ubsan_default_options() {
    return "print_stacktrace=1";
}
}
