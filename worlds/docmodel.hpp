// Abstract JSON document model + an independent strict RFC 8259 validator/decoder + text generators.
// Plain C++ (no Qentem); shared by value_world, json_world and render_world.
#ifndef QSIM_DOCMODEL_HPP
#define QSIM_DOCMODEL_HPP

#include <algorithm>
#include <cerrno>
#include <climits>
#include <cmath>
#include <cstdint>
#include <cstdlib>
#include <string>
#include <utility>
#include <vector>

namespace qw {

using U32 = std::u32string;

struct Node {
    enum Kind { Undefined = 0, Object, Array, String, UInt, Int, Double, True, False, Null, Ptr };
    Kind                               kind{Undefined};
    U32                                str;
    uint64_t                           u{0};
    int64_t                            i{0};
    double                             d{0};
    std::vector<std::pair<U32, Node>>  members;
    std::vector<Node>                  items;
    bool                               had_removal{false}; // object may hold removed entries (slot numbers unknown)
    int                                ptr{0};             // index of the pointee for Ptr nodes

    static Node mk(Kind k) {
        Node n;
        n.kind = k;
        return n;
    }
    static Node mku(uint64_t v) {
        Node n;
        n.kind = UInt;
        n.u    = v;
        return n;
    }
    static Node mki(int64_t v) {
        Node n;
        n.kind = Int;
        n.i    = v;
        return n;
    }
    static Node mkd(double v) {
        Node n;
        n.kind = Double;
        n.d    = v;
        return n;
    }
    static Node mks(const U32 &s) {
        Node n;
        n.kind = String;
        n.str  = s;
        return n;
    }
    bool is_container() const {
        return kind == Object || kind == Array;
    }
    int find(const U32 &key) const {
        for (size_t k = 0; k < members.size(); k++)
            if (members[k].first == key) return (int)k;
        return -1;
    }
    Node &get_or_add(const U32 &key) {
        int at = find(key);
        if (at >= 0) return members[(size_t)at].second;
        members.emplace_back(key, Node{});
        return members.back().second;
    }
    void to_object() {
        if (kind != Object) *this = mk(Object);
    }
    void to_array() {
        if (kind != Array) *this = mk(Array);
    }
    size_t count_nodes() const {
        size_t n = 1;
        for (auto &m : members) n += m.second.count_nodes();
        for (auto &it : items) n += it.count_nodes();
        return n;
    }
    size_t depth() const {
        size_t d0 = 0;
        for (auto &m : members) d0 = std::max(d0, m.second.depth());
        for (auto &it : items) d0 = std::max(d0, it.depth());
        return d0 + 1;
    }
};

// a deep copy made by the library never carries removed entries
inline Node deep_copy(const Node &n) {
    Node c        = n;
    c.had_removal = false;
    for (auto &m : c.members) m.second = deep_copy(m.second);
    for (auto &it : c.items) it = deep_copy(it);
    return c;
}

// the tree a stringify/parse cycle must give back: Undefined members omitted, pointers dereferenced
inline Node normalise(const Node &n, const std::vector<Node> &pointees) {
    if (n.kind == Node::Ptr) return normalise(pointees[(size_t)n.ptr], pointees);
    Node c = n;
    c.members.clear();
    c.items.clear();
    c.had_removal = false;
    for (auto &m : n.members) {
        Node v = normalise(m.second, pointees);
        if (v.kind != Node::Undefined) c.members.emplace_back(m.first, v);
    }
    for (auto &it : n.items) {
        Node v = normalise(it, pointees);
        if (v.kind != Node::Undefined) c.items.push_back(v);
    }
    return c;
}

inline bool num_equal(const Node &a, const Node &b) {
    auto isnum = [](const Node &n) { return n.kind == Node::UInt || n.kind == Node::Int || n.kind == Node::Double; };
    if (!isnum(a) || !isnum(b)) return false;
    if (a.kind != Node::Double && b.kind != Node::Double) {
        // both integers: compare exactly
        if (a.kind == Node::UInt && b.kind == Node::UInt) return a.u == b.u;
        if (a.kind == Node::Int && b.kind == Node::Int) return a.i == b.i;
        const Node &uu = a.kind == Node::UInt ? a : b;
        const Node &ii = a.kind == Node::UInt ? b : a;
        return ii.i >= 0 && (uint64_t)ii.i == uu.u;
    }
    auto todbl = [](const Node &n) { return n.kind == Node::UInt ? (double)n.u : n.kind == Node::Int ? (double)n.i : n.d; };
    return todbl(a) == todbl(b);
}

// structural equality "same tree": member order, strings unit for unit, numbers equal in value
inline bool tree_equal(const Node &a, const Node &b, std::string &why, const std::string &path = "$") {
    auto isnum = [](const Node &n) { return n.kind == Node::UInt || n.kind == Node::Int || n.kind == Node::Double; };
    if (isnum(a) || isnum(b)) {
        if (!num_equal(a, b)) {
            why = path + ": numbers differ in value";
            return false;
        }
        return true;
    }
    if (a.kind != b.kind) {
        why = path + ": kinds differ (" + std::to_string((int)a.kind) + " vs " + std::to_string((int)b.kind) + ")";
        return false;
    }
    switch (a.kind) {
        case Node::String:
            if (a.str != b.str) {
                why = path + ": strings differ";
                return false;
            }
            return true;
        case Node::Object:
            if (a.members.size() != b.members.size()) {
                why = path + ": member counts differ (" + std::to_string(a.members.size()) + " vs " + std::to_string(b.members.size()) + ")";
                return false;
            }
            for (size_t k = 0; k < a.members.size(); k++) {
                if (a.members[k].first != b.members[k].first) {
                    why = path + ": member " + std::to_string(k) + " has a different key";
                    return false;
                }
                if (!tree_equal(a.members[k].second, b.members[k].second, why, path + "." + std::to_string(k))) return false;
            }
            return true;
        case Node::Array:
            if (a.items.size() != b.items.size()) {
                why = path + ": element counts differ (" + std::to_string(a.items.size()) + " vs " + std::to_string(b.items.size()) + ")";
                return false;
            }
            for (size_t k = 0; k < a.items.size(); k++)
                if (!tree_equal(a.items[k], b.items[k], why, path + "[" + std::to_string(k) + "]")) return false;
            return true;
        default: return true;
    }
}

// ------------------------------------------------------------------------------------------------
// well-formed Unicode in the encoding that a given code-unit width implies
// ------------------------------------------------------------------------------------------------
inline bool well_formed(const U32 &s, int width) {
    if (width == 4) {
        for (char32_t c : s)
            if (c > 0x10FFFF || (c >= 0xD800 && c <= 0xDFFF)) return false;
        return true;
    }
    if (width == 2) {
        for (size_t i = 0; i < s.size(); i++) {
            char32_t c = s[i];
            if (c >= 0xD800 && c <= 0xDBFF) {
                if (i + 1 >= s.size() || s[i + 1] < 0xDC00 || s[i + 1] > 0xDFFF) return false;
                i++;
            } else if (c >= 0xDC00 && c <= 0xDFFF)
                return false;
        }
        return true;
    }
    for (size_t i = 0; i < s.size();) {
        uint32_t c = s[i] & 0xFF;
        size_t   n = c < 0x80 ? 0 : (c >> 5) == 6 ? 1 : (c >> 4) == 14 ? 2 : (c >> 3) == 30 ? 3 : 99;
        if (n == 99 || i + n >= s.size() + (n == 0 ? 1 : 0)) return false;
        uint32_t cp = n == 0 ? c : n == 1 ? (c & 0x1F) : n == 2 ? (c & 0x0F) : (c & 0x07);
        for (size_t k = 1; k <= n; k++) {
            uint32_t cc = s[i + k] & 0xFF;
            if ((cc >> 6) != 2) return false;
            cp = (cp << 6) | (cc & 0x3F);
        }
        if ((n == 1 && cp < 0x80) || (n == 2 && cp < 0x800) || (n == 3 && cp < 0x10000) || cp > 0x10FFFF ||
            (cp >= 0xD800 && cp <= 0xDFFF))
            return false;
        i += n + 1;
    }
    return true;
}

inline bool tree_well_formed(const Node &n, int width) {
    if (n.kind == Node::String && !well_formed(n.str, width)) return false;
    for (auto &m : n.members)
        if (!well_formed(m.first, width) || !tree_well_formed(m.second, width)) return false;
    for (auto &it : n.items)
        if (!tree_well_formed(it, width)) return false;
    return true;
}

inline void encode_cp(uint32_t cp, int width, U32 &out) {
    if (width == 4) {
        out.push_back(cp);
    } else if (width == 2) {
        if (cp < 0x10000)
            out.push_back(cp);
        else {
            cp -= 0x10000;
            out.push_back(0xD800 | (cp >> 10));
            out.push_back(0xDC00 | (cp & 0x3FF));
        }
    } else {
        if (cp < 0x80)
            out.push_back(cp);
        else if (cp < 0x800) {
            out.push_back(0xC0 | (cp >> 6));
            out.push_back(0x80 | (cp & 0x3F));
        } else if (cp < 0x10000) {
            out.push_back(0xE0 | (cp >> 12));
            out.push_back(0x80 | ((cp >> 6) & 0x3F));
            out.push_back(0x80 | (cp & 0x3F));
        } else {
            out.push_back(0xF0 | (cp >> 18));
            out.push_back(0x80 | ((cp >> 12) & 0x3F));
            out.push_back(0x80 | ((cp >> 6) & 0x3F));
            out.push_back(0x80 | (cp & 0x3F));
        }
    }
}

// ------------------------------------------------------------------------------------------------
// strict RFC 8259 validator + decoder over code units of a given width
// ------------------------------------------------------------------------------------------------
struct StrictJSON {
    const U32  &t;
    int         width;
    size_t      p{0};
    std::string err;
    int         depth{0};

    StrictJSON(const U32 &text, int w) : t(text), width(w) {
    }
    bool fail(const char *m) {
        if (err.empty()) err = std::string(m) + " at offset " + std::to_string(p);
        return false;
    }
    void ws() {
        while (p < t.size() && (t[p] == ' ' || t[p] == '\t' || t[p] == '\n' || t[p] == '\r')) p++;
    }
    bool document(Node &out) {
        ws();
        if (!value(out)) return false;
        ws();
        if (p != t.size()) return fail("trailing characters");
        return true;
    }
    bool value(Node &out) {
        if (p >= t.size()) return fail("unexpected end");
        if (++depth > 2000) return fail("too deep");
        bool     ok = false;
        char32_t c  = t[p];
        if (c == '{')
            ok = object(out);
        else if (c == '[')
            ok = array(out);
        else if (c == '"') {
            out.kind = Node::String;
            ok       = string(out.str);
        } else if (c == 't')
            ok = lit("true", out, Node::True);
        else if (c == 'f')
            ok = lit("false", out, Node::False);
        else if (c == 'n')
            ok = lit("null", out, Node::Null);
        else
            ok = number(out);
        depth--;
        return ok;
    }
    bool lit(const char *w, Node &out, Node::Kind k) {
        for (size_t i = 0; w[i]; i++, p++)
            if (p >= t.size() || t[p] != (char32_t)w[i]) return fail("bad literal");
        out.kind = k;
        return true;
    }
    bool object(Node &out) {
        out.kind = Node::Object;
        p++;
        ws();
        if (p < t.size() && t[p] == '}') {
            p++;
            return true;
        }
        for (;;) {
            ws();
            if (p >= t.size() || t[p] != '"') return fail("expected key");
            U32 key;
            if (!string(key)) return false;
            ws();
            if (p >= t.size() || t[p] != ':') return fail("expected colon");
            p++;
            ws();
            Node v;
            if (!value(v)) return false;
            // duplicate keys: last value wins at the first key's position
            int at = out.find(key);
            if (at >= 0)
                out.members[(size_t)at].second = v;
            else
                out.members.emplace_back(key, v);
            ws();
            if (p >= t.size()) return fail("unterminated object");
            if (t[p] == ',') {
                p++;
                continue;
            }
            if (t[p] == '}') {
                p++;
                return true;
            }
            return fail("expected , or }");
        }
    }
    bool array(Node &out) {
        out.kind = Node::Array;
        p++;
        ws();
        if (p < t.size() && t[p] == ']') {
            p++;
            return true;
        }
        for (;;) {
            ws();
            Node v;
            if (!value(v)) return false;
            out.items.push_back(v);
            ws();
            if (p >= t.size()) return fail("unterminated array");
            if (t[p] == ',') {
                p++;
                continue;
            }
            if (t[p] == ']') {
                p++;
                return true;
            }
            return fail("expected , or ]");
        }
    }
    bool hex4(uint32_t &v) {
        v = 0;
        for (int i = 0; i < 4; i++, p++) {
            if (p >= t.size()) return fail("short \\u escape");
            char32_t c = t[p];
            uint32_t d;
            if (c >= '0' && c <= '9')
                d = c - '0';
            else if (c >= 'a' && c <= 'f')
                d = c - 'a' + 10;
            else if (c >= 'A' && c <= 'F')
                d = c - 'A' + 10;
            else
                return fail("bad hex digit");
            v = (v << 4) | d;
        }
        return true;
    }
    bool string(U32 &out) {
        p++; // opening quote
        for (;;) {
            if (p >= t.size()) return fail("unterminated string");
            char32_t c = t[p];
            if (c == '"') {
                p++;
                return true;
            }
            if (c < 0x20) return fail("raw control character in string");
            if (c != '\\') {
                out.push_back(c);
                p++;
                continue;
            }
            p++;
            if (p >= t.size()) return fail("unterminated escape");
            char32_t e = t[p++];
            switch (e) {
                case '"': out.push_back('"'); break;
                case '\\': out.push_back('\\'); break;
                case '/': out.push_back('/'); break;
                case 'b': out.push_back('\b'); break;
                case 'f': out.push_back('\f'); break;
                case 'n': out.push_back('\n'); break;
                case 'r': out.push_back('\r'); break;
                case 't': out.push_back('\t'); break;
                case 'u': {
                    uint32_t cp;
                    if (!hex4(cp)) return false;
                    if (cp >= 0xD800 && cp <= 0xDBFF && p + 1 < t.size() && t[p] == '\\' && t[p + 1] == 'u') {
                        size_t   save = p;
                        uint32_t lo;
                        p += 2;
                        if (!hex4(lo)) return false;
                        if (lo >= 0xDC00 && lo <= 0xDFFF)
                            cp = 0x10000 + ((cp - 0xD800) << 10) + (lo - 0xDC00);
                        else
                            p = save;
                    }
                    encode_cp(cp, width, out);
                    break;
                }
                default: p--; return fail("bad escape");
            }
        }
    }
    bool number(Node &out) {
        size_t      s = p;
        std::string a;
        bool        neg = false, integral = true;
        if (p < t.size() && t[p] == '-') {
            neg = true;
            a.push_back('-');
            p++;
        }
        if (p >= t.size()) return fail("bad number");
        if (t[p] == '0') {
            a.push_back('0');
            p++;
        } else if (t[p] >= '1' && t[p] <= '9') {
            while (p < t.size() && t[p] >= '0' && t[p] <= '9') a.push_back((char)t[p++]);
        } else {
            p = s;
            return fail("bad value");
        }
        if (p < t.size() && t[p] == '.') {
            integral = false;
            a.push_back('.');
            p++;
            if (p >= t.size() || t[p] < '0' || t[p] > '9') return fail("bad fraction");
            while (p < t.size() && t[p] >= '0' && t[p] <= '9') a.push_back((char)t[p++]);
        }
        if (p < t.size() && (t[p] == 'e' || t[p] == 'E')) {
            integral = false;
            a.push_back('e');
            p++;
            if (p < t.size() && (t[p] == '+' || t[p] == '-')) a.push_back((char)t[p++]);
            if (p >= t.size() || t[p] < '0' || t[p] > '9') return fail("bad exponent");
            while (p < t.size() && t[p] >= '0' && t[p] <= '9') a.push_back((char)t[p++]);
        }
        if (integral) {
            const char *digits = a.c_str() + (neg ? 1 : 0);
            size_t      nd     = a.size() - (neg ? 1 : 0);
            if (nd <= 20) {
                errno                = 0;
                unsigned long long v = strtoull(digits, nullptr, 10);
                if (errno == 0) {
                    if (!neg) {
                        out = Node::mku(v);
                        return true;
                    }
                    if (v <= 9223372036854775808ULL) {
                        out = Node::mki(v == 9223372036854775808ULL ? INT64_MIN : -(int64_t)v);
                        return true;
                    }
                }
            }
        }
        out = Node::mkd(strtod(a.c_str(), nullptr));
        return true;
    }
};

} // namespace qw

#endif
