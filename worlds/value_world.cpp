// value_world (C12, C08, feeds C16): histories of public Value operations compared after every step with an
// abstract JSON document model; "checkpoint" operations stringify a history-built tree into a stream with
// pre-existing content, store it, parse it back and compare (round trip, fixed point, strict RFC 8259 validity).
#include "common.hpp"
#include <functional>
#include "docmodel.hpp"

#include <cfloat>

QH_BEGIN
namespace qw {
namespace valw {

using Qentem::SizeT;
using Qentem::SizeT64;
using Qentem::SizeT64I;
using Qentem::ValueType;
using qsim::LibCall;

struct Ctx {
    const char *opname{""};
    bool        failed{false};
    int         width{1};
    size_t      node_cap{150}; // growing operations are skipped beyond this many model nodes (large-container scenario: more)
    void fail(const char *cls, const char *obs, const std::string &detail) {
        if (!failed) qsim::report(cls, std::string("value:") + opname + ":" + obs, detail);
        failed = true;
    }
};

enum VOp {
    V_ASSIGN_SCALAR = 0, V_ASSIGN_STRING, V_ASSIGN_CONTAINER, V_ASSIGN_VALUE_COPY, V_ASSIGN_VALUE_MOVE, V_APPEND_SCALAR,
    V_APPEND_STRING, V_APPEND_CONTAINER, V_APPEND_VALUE_COPY, V_APPEND_VALUE_MOVE, V_SUBSCRIPT_KEY, V_SUBSCRIPT_INDEX,
    V_GET_KEY, V_INSERT, V_MERGE_COPY, V_MERGE_MOVE, V_REMOVE_KEY, V_REMOVE_INDEX, V_RESET, V_COMPRESS, V_ROOT_COPY_CTOR,
    V_ROOT_MOVE_CTOR, V_ROOT_CTOR, V_SET_POINTER, V_ADD_POINTER, V_ASSIGN_TYPE, V_SELF_ASSIGN, V_ASSIGN_OWN_TEXT, V_POINTEE_UPDATE, V_CONTAINER_FROM_DESC, V_CHECKPOINT, V_COUNT
};
static const char *v_op_name[] = {"assign-scalar", "assign-string", "assign-container", "assign-value-copy",
                                  "assign-value-move", "append-scalar", "append-string", "append-container",
                                  "append-value-copy", "append-value-move", "subscript-key", "subscript-index",
                                  "get-key", "insert", "merge-copy", "merge-move", "remove-key", "remove-index", "reset",
                                  "compress", "root-copy-ctor", "root-move-ctor", "root-ctor", "set-pointer",
                                  "add-pointer", "assign-type", "self-assign", "assign-own-text", "pointee-update", "container-from-descendant", "checkpoint"};

static const double nice_doubles[] = {0.0, -0.0, 1.0, -1.0, 0.5, -2.25, 1.0 / 3.0, 0.1, 0.3, 123456.789, 1e15, 9007199254740993.0,
                                      1e300, -1e-300, DBL_MAX, DBL_MIN, 4.9406564584124654e-324, 3.141592653589793, 2.5e-5, 1e21, 1e-7};

// doubles by bit pattern: boundary mantissas (all ones, all zero, single bits, alternating) at many binades
static double pattern_double(uint64_t tok) {
    static const uint64_t mant[] = {0xFFFFFFFFFFFFFULL, 0x0ULL, 0x1ULL, 0x8000000000000ULL, 0x5555555555555ULL, 0xAAAAAAAAAAAAAULL,
                                    0xFFFFFFFFFFFFEULL, 0x7FFFFFFFFFFFFULL, 0x0000000000FFFULL, 0xFFFFF00000000ULL};
    // doubles that reach edges and comparison outcomes of Digit.hpp / BigInt.hpp which random doubles almost never reach
    // (a libFuzzer corpus with value profile, produced offline: tools/README.md)
    static const uint64_t rare[] = {
#include "rare_doubles.inc"
    };
    if (tok % 7 == 5) {
        double r;
        memcpy(&r, &rare[(tok / 7) % (sizeof(rare) / sizeof(rare[0]))], 8);
        return r;
    }
    uint64_t m = mant[tok % 10];
    if ((tok / 10) % 4 == 3) m = (tok * 0x9E3779B97F4A7C15ULL) & 0xFFFFFFFFFFFFFULL;
    int64_t  e    = (int64_t)((tok / 40) % 141) - 70; // 2^-70 .. 2^70
    if ((tok / 11) % 3 == 0) e = (int64_t)((tok / 40) % 2046) - 1022; // a third of them: any binade (multi-word BigInt paths)
    uint64_t bits = ((tok / 7) & 1 ? 0x8000000000000000ULL : 0) | ((uint64_t)(1023 + e) << 52) | m;
    double   d;
    memcpy(&d, &bits, 8);
    return d;
}
static double some_double(uint64_t tok) {
    if (tok & 1) return pattern_double(tok >> 1);
    return nice_doubles[(tok >> 1) % (sizeof(nice_doubles) / sizeof(double))];
}

// a deterministic small tree from a token (payload of container / value operations)
static Node gen_node(uint64_t tok, int depth, const U32 &s) {
    switch (tok % 9) {
        case 0: return Node::mku(tok);
        case 1: return Node::mki(-(int64_t)(tok & 0xFFFFFF));
        case 2: return Node::mkd(some_double(tok / 9));
        case 3: return Node::mks(s);
        case 4: return Node::mk(Node::True);
        case 5: return Node::mk(Node::Null);
        case 6: return Node::mk(Node::False);
        case 7: {
            Node   n = Node::mk(Node::Array);
            size_t k = (tok / 9) % 4;
            for (size_t i = 0; i < k; i++)
                n.items.push_back(depth > 0 ? gen_node(tok / 7 + i * 13 + 1, depth - 1, s) : Node::mku(tok + i));
            return n;
        }
        default: {
            Node              n = Node::mk(Node::Object);
            size_t            k = (tok / 9) % 4;
            static const char *names[] = {"m0", "m1", "a", "ab"};
            for (size_t i = 0; i < k; i++)
                n.get_or_add(ascii(names[(tok / 3 + i) % 4])) = depth > 0 ? gen_node(tok / 5 + i * 17 + 2, depth - 1, s) : Node::mku(tok + i);
            return n;
        }
    }
}

template <typename C>
struct ValW {
    using VT   = Qentem::Value<C>;
    using ObjT = typename VT::ObjectT;
    using ArrT = typename VT::ArrayT;
    using StrT = typename VT::StringT;
    using SVT  = typename VT::StringViewT;
    using Stm  = Qentem::StringStream<C>;

    static constexpr int R = 2;
    ArenaObj<VT>         root[R];
    Node                 model[R];
    static constexpr int NP = 4;
    ArenaObj<VT>         ptee[NP];
    std::vector<Node>    pmodel;
    Ctx                 &cx;

    explicit ValW(Ctx &c) : cx(c) {
        pmodel.resize(NP);
        pmodel[0] = Node::mk(Node::Object);
        pmodel[0].get_or_add(ascii("p")) = Node::mku(1);
        pmodel[0].get_or_add(ascii("q")) = Node::mks(ascii("s"));
        pmodel[0].get_or_add(ascii("r")) = Node::mkd(0.1 + 0.2); // needs all 17 digits
        pmodel[1]                        = Node::mk(Node::Array);
        pmodel[1].items.push_back(Node::mku(1));
        pmodel[1].items.push_back(Node::mks(ascii("x")));
        pmodel[1].items.push_back(Node::mkd(1.0 / 3.0));
        pmodel[1].items.push_back(Node::mkd(pattern_double(12345)));
        pmodel[2] = Node::mks(ascii("ptr"));
        pmodel[3] = Node::mku(42);
        for (int i = 0; i < R; i++) {
            LibCall lc;
            new (root[i].p) VT();
        }
        for (int i = 0; i < NP; i++) build_into(ptee[i].p, pmodel[(size_t)i], true);
    }
    void teardown() {
        LibCall lc;
        for (int i = 0; i < R; i++) root[i]->~VT();
        for (int i = 0; i < NP; i++) ptee[i]->~VT();
    }

    // ---- building library values from model nodes (through the public API)
    void build_into(VT *dst, const Node &n, bool construct) {
        if (construct) {
            LibCall lc;
            new (dst) VT();
        }
        assign_node(*dst, n);
    }
    void assign_node(VT &v, const Node &n) {
        switch (n.kind) {
            case Node::Undefined: {
                LibCall lc;
                v.Reset();
                break;
            }
            case Node::UInt: {
                LibCall lc;
                assign_in_own_unit(v, (SizeT64)n.u);
                break;
            }
            case Node::Int: {
                LibCall lc;
                assign_in_own_unit(v, (SizeT64I)n.i);
                break;
            }
            case Node::Double: {
                LibCall lc;
                assign_in_own_unit(v, n.d);
                break;
            }
            case Node::True: {
                LibCall lc;
                assign_in_own_unit(v, true);
                break;
            }
            case Node::False: {
                LibCall lc;
                assign_in_own_unit(v, false);
                break;
            }
            case Node::Null: {
                LibCall lc;
                assign_in_own_unit(v, nullptr);
                break;
            }
            case Node::String: {
                ArenaText<C> t(n.str);
                LibCall      lc;
                assign_in_own_unit(v, SVT{(const C *)t.ptr, (SizeT)t.len});
                break;
            }
            case Node::Ptr: {
                LibCall lc;
                v.SetPointerToValue(ptee[n.ptr].p);
                break;
            }
            case Node::Array: {
                {
                    LibCall lc;
                    assign_in_own_unit(v, ArrT{});
                }
                for (auto &it : n.items) {
                    VT *slot;
                    {
                        LibCall lc;
                        append_in_own_unit(v, VT{});
                        slot = v.GetArray()->Last();
                    }
                    assign_node(*slot, it);
                }
                break;
            }
            case Node::Object: {
                {
                    LibCall lc;
                    assign_in_own_unit(v, ObjT{});
                }
                for (auto &m : n.members) {
                    ArenaText<C> t(m.first);
                    VT          *slot;
                    {
                        LibCall lc;
                        slot = &v.Get((const C *)t.ptr, (SizeT)t.len);
                    }
                    assign_node(*slot, m.second);
                }
                break;
            }
        }
    }

    // ---- deep comparison through the public read API
    bool units_eq(const C *p, size_t len, const U32 &want, const char *what) {
        if (len != want.size()) return false;
        U32 got;
        if (!read_units(p, len, got, what)) {
            cx.failed = true;
            return false;
        }
        return got == want;
    }

    static ValueType expected_type(const Node &n) {
        switch (n.kind) {
            case Node::Object: return ValueType::Object;
            case Node::Array: return ValueType::Array;
            case Node::String: return ValueType::String;
            case Node::UInt: return ValueType::UIntLong;
            case Node::Int: return ValueType::IntLong;
            case Node::Double: return ValueType::Double;
            case Node::True: return ValueType::True;
            case Node::False: return ValueType::False;
            case Node::Null: return ValueType::Null;
            case Node::Ptr: return ValueType::ValuePtr;
            default: return ValueType::Undefined;
        }
    }

    // numeric / boolean coercions of the node the getters look at (pointers dereferenced)
    void check_coercions(const VT &v, const Node &t, const std::string &path) {
        SizeT64  gu;
        SizeT64I gi;
        double   gd, gn;
        bool     bval = false, bret;
        Qentem::QNumber64   qn;
        Qentem::QNumberType qt, nt;
        {
            LibCall lc;
            gu   = v.GetUInt64();
            gi   = v.GetInt64();
            gd   = v.GetDouble();
            gn   = v.GetNumber();
            bret = v.SetBool(bval);
            qt   = v.SetNumber(qn);
            nt   = v.GetNumberType();
        }
        bool     known = true;
        uint64_t eu = 0;
        int64_t  ei = 0;
        double   ed = 0;
        bool     eb = false, ebret = false;
        Qentem::QNumberType eqt = Qentem::QNumberType::NotANumber, ent = Qentem::QNumberType::NotANumber;
        switch (t.kind) {
            case Node::UInt:
                eu = t.u, ei = (int64_t)t.u, ed = (double)t.u, eb = t.u > 0, ebret = true;
                eqt = ent = Qentem::QNumberType::Natural;
                break;
            case Node::Int:
                eu = (uint64_t)t.i, ei = t.i, ed = (double)t.i, eb = t.i > 0, ebret = true;
                eqt = ent = Qentem::QNumberType::Integer;
                break;
            case Node::Double:
                ed = t.d, eb = t.d > 0, ebret = true;
                eqt = ent = Qentem::QNumberType::Real;
                if (t.d > -9e18 && t.d < 9e18) {
                    ei = (int64_t)t.d;
                    eu = (uint64_t)ei;
                } else {
                    gu = eu = 0; // conversion of an out-of-range double to an integer is not defined
                    gi = ei = 0;
                }
                break;
            case Node::True: eu = 1, ei = 1, ed = 1.0, eb = true, ebret = true, eqt = Qentem::QNumberType::Natural; break;
            case Node::False:
            case Node::Null: eu = 0, ei = 0, ed = 0.0, eb = false, ebret = true, eqt = Qentem::QNumberType::Natural; break;
            case Node::String: {
                // only strings whose numeric meaning is beyond doubt are predicted: canonical decimal integers,
                // "true"/"false", and texts that cannot start a numeral
                const U32 &s = t.str;
                if (s == ascii("true")) {
                    eb = true, ebret = true;
                } else if (s == ascii("false")) {
                    eb = false, ebret = true;
                }
                bool canon = !s.empty() && s.size() <= 18;
                size_t st  = (!s.empty() && s[0] == '-') ? 1 : 0;
                if (s.size() == st) canon = false;
                for (size_t i = st; i < s.size() && canon; i++)
                    if (s[i] < '0' || s[i] > '9') canon = false;
                if (canon && s.size() > st + 1 && s[st] == '0') canon = false;
                if (canon && st == 1 && s.size() == 2 && s[1] == '0') canon = false; // "-0": kind not predicted
                bool texty = !s.empty() && (s[0] == 'a' || s[0] == 'b' || s[0] == 'c' || s[0] == 'z' || s[0] == '_' || s[0] == '"' || s[0] == 'p' || s[0] == 's' || s[0] == 'x');
                if (canon) {
                    uint64_t mag = 0;
                    for (size_t i = st; i < s.size(); i++) mag = mag * 10 + (s[i] - '0');
                    if (st) {
                        ei = -(int64_t)mag, eu = (uint64_t)ei, ed = (double)ei, eqt = Qentem::QNumberType::Integer;
                    } else {
                        eu = mag, ei = (int64_t)mag, ed = (double)mag, eqt = Qentem::QNumberType::Natural;
                    }
                } else if (texty || s.empty()) {
                    eu = 0, ei = 0, ed = 0.0, eqt = Qentem::QNumberType::NotANumber;
                } else {
                    known = false;
                }
                break;
            }
            default: break; // Undefined, Object, Array: not numbers, getters give 0
        }
        if (bret != ebret || (bret && bval != eb)) {
            cx.fail("model", "setbool", path + ": SetBool disagrees with the stored content");
            return;
        }
        if (nt != ent) {
            cx.fail("model", "number-type", path + ": GetNumberType disagrees with the stored kind");
            return;
        }
        if (!known) return;
        if (gu != eu || gi != ei || !(gd == ed) || !(gn == ed) || qt != eqt) {
            cx.fail("model", "number-getters", path + ": GetUInt64/GetInt64/GetDouble/SetNumber disagree with the stored content");
            return;
        }
        if (eqt == Qentem::QNumberType::Natural && qn.Natural != eu) cx.fail("model", "number-getters", path + ": SetNumber value");
        if (eqt == Qentem::QNumberType::Integer && qn.Integer != ei) cx.fail("model", "number-getters", path + ": SetNumber value");
        if (eqt == Qentem::QNumberType::Real && !(qn.Real == ed)) cx.fail("model", "number-getters", path + ": SetNumber value");
    }

    void cmp(const VT *v, const Node &n, const std::string &path, int depth) {
        if (cx.failed || depth > 12) return;
        if (!qsim::readable(v, sizeof(VT))) {
            cx.fail("obs-oob", "value-header", path + ": value header is not inside a live block");
            return;
        }
        if (v->Type() != expected_type(n)) {
            cx.fail("model", "kind", path + ": Type() is " + std::to_string((int)v->Type()) + ", model kind " + std::to_string((int)n.kind));
            return;
        }
        // what the accessors look through to. A pointer may point at a value that is itself a pointer (pointee 3 can be
        // re-targeted): the recursive accessors follow the whole chain; the Is...() predicates look one level deep only and
        // are not compared for chains.
        const Node *tp    = &n;
        bool        chain = false;
        if (n.kind == Node::Ptr) {
            tp = &pmodel[(size_t)n.ptr];
            if (tp->kind == Node::Ptr) {
                chain = true;
                tp    = &pmodel[(size_t)tp->ptr];
            }
        }
        const Node &t = *tp;
        bool p_und, p_obj, p_arr, p_str, p_u, p_i, p_d, p_t, p_f, p_n, p_num;
        size_t size, len;
        {
            LibCall lc;
            p_und = v->IsUndefined(), p_obj = v->IsObject(), p_arr = v->IsArray(), p_str = v->IsString();
            p_u = v->IsUInt64(), p_i = v->IsInt64(), p_d = v->IsDouble(), p_t = v->IsTrue(), p_f = v->IsFalse();
            p_n = v->IsNull(), p_num = v->IsNumber();
            size = v->Size();
            len  = v->Length();
        }
        if (!chain &&
            (p_und != (t.kind == Node::Undefined) || p_obj != (t.kind == Node::Object) || p_arr != (t.kind == Node::Array) ||
            p_str != (t.kind == Node::String) || p_u != (t.kind == Node::UInt) || p_i != (t.kind == Node::Int) ||
            p_d != (t.kind == Node::Double) || p_t != (t.kind == Node::True) || p_f != (t.kind == Node::False) ||
            p_n != (t.kind == Node::Null) || p_num != (t.kind == Node::UInt || t.kind == Node::Int || t.kind == Node::Double))) {
            cx.fail("model", "predicates", path + ": Is...() predicates disagree with the model kind");
            return;
        }
        if (len != (t.kind == Node::String ? t.str.size() : 0)) {
            cx.fail("model", "length", path + ": Length()");
            return;
        }
        check_coercions(*v, t, path);
        if (cx.failed) return;
        switch (t.kind) {
            case Node::String: {
                const StrT *s;
                const C    *st, *cp = nullptr;
                SizeT       cl = 0;
                bool        cr;
                size_t      vl;
                const C    *vp;
                {
                    LibCall lc;
                    s       = v->GetString();
                    st      = v->StringStorage();
                    cr      = v->SetCharAndLength(cp, cl);
                    SVT sv  = v->GetStringView();
                    vp      = sv.First();
                    vl      = sv.Length();
                }
                if (s == nullptr || !units_eq(s->First(), s->Length(), t.str, "value-string")) {
                    cx.fail("model", "string", path + ": GetString() content differs from the model");
                    return;
                }
                if (st != s->First() || !cr || cp != s->First() || cl != s->Length() || vp != s->First() || vl != s->Length())
                    cx.fail("model", "string-accessors", path + ": StringStorage/SetCharAndLength/GetStringView disagree with GetString");
                qsim::obs(t.str.size() * 131ULL);
                for (char32_t c : t.str) qsim::obs((uint64_t)c);
                break;
            }
            case Node::Array: {
                if (size != t.items.size()) {
                    cx.fail("model", "size", path + ": array Size()=" + std::to_string(size) + " model=" + std::to_string(t.items.size()));
                    return;
                }
                const ArrT *arr;
                {
                    LibCall lc;
                    arr = v->GetArray();
                }
                if (arr == nullptr || arr->Size() != size) {
                    cx.fail("model", "get-array", path + ": GetArray()");
                    return;
                }
                qsim::obs(size * 17ULL + 3);
                for (size_t k = 0; k < size && !cx.failed; k++) {
                    const VT *el = arr->First() + k;
                    const VT *gv;
                    {
                        LibCall lc;
                        gv = v->GetValue((SizeT)k);
                    }
                    const Node &child = t.items[k];
                    const Node &ct    = child.kind == Node::Ptr ? pmodel[(size_t)child.ptr] : child;
                    // GetValue(index) hides members whose own kind is Undefined (a pointer member is never hidden)
                    bool hidden = child.kind == Node::Undefined;
                    (void)ct;
                    if ((gv == nullptr) != hidden || (gv != nullptr && gv != el)) {
                        cx.fail("model", "get-index", path + "[" + std::to_string(k) + "]: GetValue(index)");
                        return;
                    }
                    if (n.kind != Node::Ptr) cmp(el, child, path + "[" + std::to_string(k) + "]", depth + 1);
                }
                {
                    const VT *gv;
                    LibCall   lc;
                    gv = v->GetValue((SizeT)size);
                    if (gv != nullptr) cx.fail("model", "get-index", path + ": GetValue(Size()) is not null");
                }
                break;
            }
            case Node::Object: {
                const ObjT *obj;
                {
                    LibCall lc;
                    obj = v->GetObject();
                }
                if (obj == nullptr) {
                    cx.fail("model", "get-object", path + ": GetObject()");
                    return;
                }
                if (!t.had_removal && size != t.members.size()) {
                    cx.fail("model", "size", path + ": object Size()=" + std::to_string(size) + " model=" + std::to_string(t.members.size()));
                    return;
                }
                if (size < t.members.size()) {
                    cx.fail("model", "size", path + ": object Size() smaller than the number of members");
                    return;
                }
                // iteration: live slots in order are exactly the model members
                size_t mi = 0;
                qsim::obs(t.members.size() * 19ULL + 5);
                for (size_t s = 0; s < size && !cx.failed; s++) {
                    const StrT *key;
                    const VT   *gv;
                    const VT   *sv = nullptr;
                    const C    *kp = nullptr;
                    SizeT       kl = 0;
                    bool        skl;
                    {
                        LibCall lc;
                        key = v->GetKey((SizeT)s);
                        gv  = v->GetValue((SizeT)s);
                        skl = v->SetKeyCharAndLength((SizeT)s, kp, kl);
                        SVT kv;
                        v->SetValueAndKey((SizeT)s, sv, kv);
                    }
                    if (key == nullptr) {
                        if (!t.had_removal) {
                            cx.fail("model", "iteration", path + ": an object without removals has a dead slot");
                            return;
                        }
                        if (gv != nullptr || skl) cx.fail("model", "iteration", path + ": dead slot yields a value");
                        continue;
                    }
                    if (mi >= t.members.size()) {
                        cx.fail("model", "iteration", path + ": more live members than the model holds");
                        return;
                    }
                    const auto &mem = t.members[mi];
                    if (!units_eq(key->First(), key->Length(), mem.first, "value-key")) {
                        cx.fail("model", "iteration-order", path + ": member " + std::to_string(mi) + " has key other than \"" + to_printable(mem.first) + "\"");
                        return;
                    }
                    for (char32_t c : mem.first) qsim::obs((uint64_t)c);
                    if (!skl || kp != key->First() || kl != key->Length()) cx.fail("model", "iteration", path + ": SetKeyCharAndLength");
                    const VT *raw = obj->GetValue((SizeT)s);
                    bool      hidden = mem.second.kind == Node::Undefined;
                    if (raw == nullptr || (gv == nullptr) != hidden || (gv != nullptr && gv != raw) || (sv == nullptr) != hidden) {
                        cx.fail("model", "get-index", path + ": GetValue(index)/SetValueAndKey on member " + std::to_string(mi));
                        return;
                    }
                    // by key
                    {
                        ArenaText<C> kt(mem.first);
                        const VT    *bk, *bk2;
                        {
                            LibCall lc;
                            bk  = v->GetValue((const C *)kt.ptr, (SizeT)kt.len);
                            bk2 = v->GetValue(SVT{(const C *)kt.ptr, (SizeT)kt.len});
                        }
                        if ((bk == nullptr) != hidden || (bk != nullptr && bk != raw) || bk2 != bk) {
                            cx.fail("model", "get-key", path + ": GetValue(key) for \"" + to_printable(mem.first) + "\"");
                            return;
                        }
                    }
                    if (n.kind != Node::Ptr) cmp(raw, mem.second, path + "." + to_printable(mem.first), depth + 1);
                    mi++;
                }
                if (!cx.failed && mi != t.members.size()) cx.fail("model", "iteration", path + ": fewer live members than the model holds");
                // a key that is not stored
                if (!cx.failed) {
                    U32 ghost = ascii("~nope~");
                    if (t.find(ghost) < 0) {
                        ArenaText<C> kt(ghost);
                        const VT    *bk;
                        {
                            LibCall lc;
                            bk = v->GetValue((const C *)kt.ptr, (SizeT)kt.len);
                        }
                        if (bk != nullptr) cx.fail("model", "get-key", path + ": GetValue(key) finds a key that is not stored");
                    }
                }
                break;
            }
            default: {
                if (size != 0) cx.fail("model", "size", path + ": Size() of a non-container");
                qsim::obs((uint64_t)t.kind * 1000003ULL ^ t.u ^ (uint64_t)t.i);
            }
        }
    }

    void check() {
        for (int i = 0; i < R && !cx.failed; i++) cmp(root[i].p, model[i], std::string("root") + std::to_string(i), 0);
        // the pointees must never change
        for (int i = 0; i < NP && !cx.failed; i++) cmp(ptee[i].p, pmodel[(size_t)i], std::string("pointee") + std::to_string(i), 0);
    }

    // ---- navigation: selector digits pick a child (or stop) at each level
    VT *nav(int r, uint64_t sel, Node *&out, bool stop_early_ok = true) {
        VT   *cur = root[r].p;
        Node *n   = &model[r];
        for (int level = 0; level < 3; level++) {
            if (sel >> 40) break; // selector of the large-container scenario: the root itself, whatever its size
            uint64_t d = sel % 8;
            sel /= 8;
            if (n->kind == Node::Object && !n->members.empty()) {
                size_t c = (size_t)(d % (n->members.size() + 1));
                if (c == n->members.size()) break;
                ArenaText<C> kt(n->members[c].first);
                VT          *child;
                {
                    LibCall lc;
                    ObjT   *o = cur->GetObject();
                    child     = o ? o->GetValue((const C *)kt.ptr, (SizeT)kt.len) : nullptr;
                }
                if (child == nullptr) {
                    cx.fail("model", "navigate", "a stored member cannot be reached by key");
                    return nullptr;
                }
                cur = child;
                n   = &n->members[c].second;
            } else if (n->kind == Node::Array && !n->items.empty()) {
                size_t c = (size_t)(d % (n->items.size() + 1));
                if (c == n->items.size()) break;
                VT *child;
                {
                    LibCall lc;
                    ArrT   *a = cur->GetArray();
                    child     = (a && c < a->Size()) ? a->Storage() + c : nullptr;
                }
                if (child == nullptr) {
                    cx.fail("model", "navigate", "a stored element cannot be reached by index");
                    return nullptr;
                }
                cur = child;
                n   = &n->items[c];
            } else
                break;
        }
        (void)stop_early_ok;
        out = n;
        return cur;
    }

    // limits keep trees small
    bool too_big() {
        return model[0].count_nodes() + model[1].count_nodes() > cx.node_cap;
    }

    void obj_merge(Node &dst, const Node &src) {
        for (auto &m : src.members) dst.get_or_add(m.first) = m.second;
    }
    static void m_compress(Node &n) {
        if (n.kind == Node::Array) {
            std::vector<Node> keep;
            for (auto &it : n.items)
                if (it.kind != Node::Undefined) keep.push_back(it);
            n.items = keep;
            for (auto &it : n.items)
                if (it.kind == Node::Array || it.kind == Node::Object) m_compress(it);
        } else if (n.kind == Node::Object) {
            n.had_removal = false;
            for (auto &m : n.members)
                if (m.second.kind == Node::Array || m.second.kind == Node::Object) m_compress(m.second);
        }
    }

    // append an element the way every operator+= does when the target is not an object-merge
    void m_append(Node &n, const Node &el) {
        n.to_array();
        n.items.push_back(el);
    }

    void exec(const Op &op) {
        int      kind = (int)((uint64_t)op.kind % V_COUNT);
        int      j    = (int)((uint64_t)op.a[0] % R);
        uint64_t tok  = (uint64_t)op.a[3];
        int      var  = (int)((uint64_t)op.a[4] % 64);
        U32      s0   = op.s.size() > 0 ? unpack_units(op.s[0]) : U32();
        U32      s1   = op.s.size() > 1 ? unpack_units(op.s[1]) : U32();
        for (auto &c : s0) c &= unit_mask<C>();
        for (auto &c : s1) c &= unit_mask<C>();
        cx.opname = v_op_name[kind];
        Node *n = nullptr;
        VT   *v = nav(j, (uint64_t)op.a[1], n);
        if (v == nullptr) return;
        // source operand: always from the OTHER root (no aliasing between source and destination)
        int   k   = 1 - j;
        Node *sn  = nullptr;
        VT   *src = nullptr;
        auto  need_src = [&]() {
            src = nav(k, (uint64_t)op.a[2], sn);
            return src != nullptr;
        };
        bool growing = kind == V_ASSIGN_CONTAINER || kind == V_ASSIGN_VALUE_COPY || (kind >= V_APPEND_SCALAR && kind <= V_APPEND_VALUE_COPY) ||
                       kind == V_SUBSCRIPT_KEY || kind == V_SUBSCRIPT_INDEX || kind == V_GET_KEY || kind == V_INSERT || kind == V_MERGE_COPY ||
                       kind == V_ADD_POINTER || kind == V_ROOT_COPY_CTOR;
        if (growing && too_big()) return;

        switch (kind) {
            case V_ASSIGN_SCALAR: {
                LibCall lc;
                switch (var % 12) {
                    case 0: assign_in_own_unit(*v, (SizeT64)tok); *n = Node::mku(tok); break;
                    case 1: assign_in_own_unit(*v, (SizeT64I)(-(int64_t)(tok >> 1))); *n = Node::mki(-(int64_t)(tok >> 1)); break;
                    case 2: {
                        double d = some_double(tok);
                        assign_in_own_unit(*v, d);
                        *n       = Node::mkd(d);
                        break;
                    }
                    case 3: assign_in_own_unit(*v, (int)(tok & 0x7FFF) - 100); *n = Node::mki((int)(tok & 0x7FFF) - 100); break;
                    case 4: assign_in_own_unit(*v, (unsigned int)(tok & 0xFFFFFF)); *n = Node::mku(tok & 0xFFFFFF); break;
                    case 5: assign_in_own_unit(*v, (unsigned short)(tok & 0xFFFF)); *n = Node::mku(tok & 0xFFFF); break;
                    case 6: assign_in_own_unit(*v, (short)(tok & 0xFFFF)); *n = Node::mki((short)(tok & 0xFFFF)); break;
                    case 7: assign_in_own_unit(*v, (float)((int)(tok & 0xFF) - 100) * 0.25f); *n = Node::mkd((double)((float)((int)(tok & 0xFF) - 100) * 0.25f)); break;
                    case 8: assign_in_own_unit(*v, (tok & 1) != 0); *n = Node::mk((tok & 1) ? Node::True : Node::False); break;
                    case 9: assign_in_own_unit(*v, nullptr); *n = Node::mk(Node::Null); break;
                    case 10: assign_in_own_unit(*v, (SizeT64)0xFFFFFFFFFFFFFFFFULL - (tok & 3)); *n = Node::mku(0xFFFFFFFFFFFFFFFFULL - (tok & 3)); break;
                    default: assign_in_own_unit(*v, (SizeT64I)(INT64_MIN + (int64_t)(tok & 3))); *n = Node::mki(INT64_MIN + (int64_t)(tok & 3)); break;
                }
                break;
            }
            case V_ASSIGN_STRING: {
                U32          z = s0.substr(0, s0.find(U'\0'));
                ArenaText<C> t(s0), tz(z, true);
                LibCall      lc;
                switch (var % 7) {
                    case 0: assign_in_own_unit(*v, StrT{(const C *)t.ptr, (SizeT)t.len}); *n = Node::mks(s0); break;
                    case 1: {
                        StrT tmp{(const C *)t.ptr, (SizeT)t.len};
                        assign_in_own_unit(*v, static_cast<const StrT &>(tmp));
                        *n = Node::mks(s0);
                        break;
                    }
                    case 2: assign_in_own_unit(*v, SVT{(const C *)t.ptr, (SizeT)t.len}); *n = Node::mks(s0); break;
                    case 3: assign_in_own_unit(*v, (const C *)tz.ptr); *n = Node::mks(z); break;
                    case 4: {
                        StrT        tmp{(const C *)t.ptr, (SizeT)t.len};
                        const StrT *pc = &tmp;
                        assign_in_own_unit(*v, pc);
                        *n             = Node::mks(s0);
                        break;
                    }
                    case 5: {
                        StrT  tmp{(const C *)t.ptr, (SizeT)t.len};
                        StrT *pm = &tmp;
                        assign_in_own_unit(*v, pm);
                        *n       = Node::mks(s0);
                        break;
                    }
                    default: {
                        const StrT *nul = nullptr;
                        assign_in_own_unit(*v, nul); // a null string pointer assigns nothing
                        break;
                    }
                }
                break;
            }
            case V_ASSIGN_CONTAINER: {
                Node payload = gen_node((var & 1) ? (tok / 9) * 9 + 7 : (tok / 9) * 9 + 8, 1, s0);
                ArenaObj<VT> tmp;
                build_into(tmp.p, payload, true);
                if (n->kind == Node::String && n->str.size() > 0) qsim::probe("value.container-over-string");
                if (n->kind == Node::Object || n->kind == Node::Array) qsim::probe("value.container-over-container");
                {
                    LibCall lc;
                    if (payload.kind == Node::Array) {
                        if (var & 2)
                            assign_in_own_unit(*v, static_cast<ArrT &&>(*tmp->GetArray()));
                        else
                            assign_in_own_unit(*v, static_cast<const ArrT &>(*tmp->GetArray()));
                    } else {
                        if (var & 2)
                            assign_in_own_unit(*v, static_cast<ObjT &&>(*tmp->GetObject()));
                        else
                            assign_in_own_unit(*v, static_cast<const ObjT &>(*tmp->GetObject()));
                    }
                    tmp->~VT();
                }
                *n = deep_copy(payload);
                break;
            }
            case V_ASSIGN_VALUE_COPY: {
                if (!need_src()) return;
                Node copy = deep_copy(*sn);
                {
                    LibCall lc;
                    assign_in_own_unit(*v, static_cast<const VT &>(*src));
                }
                *n = copy;
                break;
            }
            case V_ASSIGN_VALUE_MOVE: {
                if (!need_src()) return;
                Node moved = *sn;
                {
                    LibCall lc;
                    assign_in_own_unit(*v, static_cast<VT &&>(*src));
                }
                *n  = moved;
                *sn = Node{};
                break;
            }
            case V_SELF_ASSIGN: {
                LibCall lc;
                assign_in_own_unit(*v, static_cast<const VT &>(*v));
                break;
            }
            case V_CONTAINER_FROM_DESC: {
                // container-level assignment (through GetObject() / GetArray()) whose source is a container of the same
                // kind held somewhere INSIDE the destination. Array and HashTable copy- and move-assignment are written
                // for exactly this case (they adopt / copy first and release the old content last).
                if (n->kind != Node::Object && n->kind != Node::Array) return;
                std::vector<std::pair<bool, size_t>> path, best; // (by key?, position)
                {
                    // depth-first search for descendants of the same kind; the tok-th one found is taken
                    size_t                                      want = 1 + (size_t)(tok % 5), found = 0;
                    std::function<void(const Node &, int)> walk = [&](const Node &cur, int depth) {
                        if (depth > 3 || found >= want) return;
                        size_t cnt = cur.kind == Node::Object ? cur.members.size() : cur.kind == Node::Array ? cur.items.size() : 0;
                        for (size_t i = 0; i < cnt && found < want; i++) {
                            const Node &c = cur.kind == Node::Object ? cur.members[i].second : cur.items[i];
                            if (c.kind == Node::Undefined || c.kind == Node::Ptr) continue;
                            path.emplace_back(cur.kind == Node::Object, i);
                            if (c.kind == n->kind) {
                                found++;
                                best = path;
                            }
                            if (c.kind == Node::Object || c.kind == Node::Array) walk(c, depth + 1);
                            path.pop_back();
                        }
                    };
                    walk(*n, 0);
                }
                if (best.empty()) return;
                const Node *dn = n;
                VT         *dv = v;
                for (auto &st : best) {
                    VT *child = nullptr;
                    if (st.first) {
                        ArenaText<C> kt(dn->members[st.second].first);
                        LibCall      lc;
                        ObjT        *o = dv->GetObject();
                        child          = o ? o->GetValue((const C *)kt.ptr, (SizeT)kt.len) : nullptr;
                        dn             = &dn->members[st.second].second;
                    } else {
                        if (dn->had_removal) return;
                        LibCall lc;
                        ArrT   *a = dv->GetArray();
                        child     = (a && st.second < a->Size()) ? a->Storage() + st.second : nullptr;
                        dn        = &dn->items[st.second];
                    }
                    if (child == nullptr) return; // (holes in an array: positions are not comparable; give up quietly)
                    dv = child;
                }
                bool move  = (var & 1) != 0;
                Node taken = move ? *dn : deep_copy(*dn); // (a library copy is compact at every level; a move keeps the holes)
                qsim::probe("value.container-from-descendant");
                {
                    LibCall lc;
                    if (n->kind == Node::Object) {
                        if (move)
                            assign_in_own_unit(*v->GetObject(), static_cast<ObjT &&>(*dv->GetObject()));
                        else
                            assign_in_own_unit(*v->GetObject(), static_cast<const ObjT &>(*dv->GetObject()));
                    } else {
                        if (move)
                            assign_in_own_unit(*v->GetArray(), static_cast<ArrT &&>(*dv->GetArray()));
                        else
                            assign_in_own_unit(*v->GetArray(), static_cast<const ArrT &>(*dv->GetArray()));
                    }
                }
                if (!move) taken.had_removal = false; // a copied table is compact
                *n = taken;
                break;
            }
            case V_ASSIGN_OWN_TEXT: {
                // the new content is text the target itself owns: a sub-range of its own string, or a string somewhere
                // beneath it. Every string-taking assignment has to read it before releasing the old content.
                const StrT *own = nullptr;
                U32         text;
                if (n->kind == Node::String && !n->str.empty()) {
                    LibCall lc;
                    own  = v->GetString();
                    text = n->str;
                } else if (n->kind == Node::Array || n->kind == Node::Object) {
                    size_t cnt = n->kind == Node::Array ? n->items.size() : n->members.size();
                    for (size_t k = 0; k < cnt && own == nullptr; k++) {
                        const Node &c = n->kind == Node::Array ? n->items[(k + tok) % cnt] : n->members[(k + tok) % cnt].second;
                        if (c.kind != Node::String || c.str.empty()) continue;
                        LibCall lc;
                        const VT *cv = n->kind == Node::Array ? (v->GetArray()->First() + ((k + tok) % cnt))
                                                              : v->GetObject()->GetValue((SizeT)0) /*placeholder*/;
                        if (n->kind == Node::Object) {
                            ArenaText<C> kt(n->members[(k + tok) % cnt].first);
                            cv = v->GetObject()->GetValue((const C *)kt.ptr, (SizeT)kt.len);
                        }
                        if (cv != nullptr) {
                            own  = cv->GetString();
                            text = c.str;
                        }
                    }
                }
                if (own == nullptr) return;
                size_t off = (size_t)((tok / 7) % text.size());
                size_t cnt = 1 + (size_t)((tok / 31) % (text.size() - off));
                qsim::probe("value.assign-own-text");
                LibCall lc;
                switch (var % 5) {
                    case 0: assign_in_own_unit(*v, SVT{own->First() + off, (SizeT)cnt}); *n = Node::mks(text.substr(off, cnt)); break;
                    case 1: {
                        U32 rest = text.substr(off);
                        assign_in_own_unit(*v, (const C *)(own->First() + off)); // NUL-terminated tail of the owned string
                        *n       = Node::mks(rest.substr(0, rest.find(U'\0')));
                        break;
                    }
                    case 2: assign_in_own_unit(*v, static_cast<const StrT &>(*own)); *n = Node::mks(text); break;
                    case 3: assign_in_own_unit(*v, own); *n = Node::mks(text); break;
                    default: assign_in_own_unit(*v, SVT{own->First(), own->Length()}); *n = Node::mks(text); break;
                }
                break;
            }
            case V_APPEND_SCALAR: {
                LibCall lc;
                switch (var % 8) {
                    case 0: append_in_own_unit(*v, (SizeT64)tok); m_append(*n, Node::mku(tok)); break;
                    case 1: append_in_own_unit(*v, (SizeT64I)(-(int64_t)(tok >> 1))); m_append(*n, Node::mki(-(int64_t)(tok >> 1))); break;
                    case 2: {
                        double d = some_double(tok);
                        append_in_own_unit(*v, d);
                        m_append(*n, Node::mkd(d));
                        break;
                    }
                    case 3: append_in_own_unit(*v, (int)(tok & 0xFFFF) - 5); m_append(*n, Node::mki((int)(tok & 0xFFFF) - 5)); break;
                    case 4: append_in_own_unit(*v, (unsigned int)(tok & 0xFFFF)); m_append(*n, Node::mku(tok & 0xFFFF)); break;
                    case 5: append_in_own_unit(*v, (tok & 1) != 0); m_append(*n, Node::mk((tok & 1) ? Node::True : Node::False)); break;
                    case 6: append_in_own_unit(*v, nullptr); m_append(*n, Node::mk(Node::Null)); break;
                    default: append_in_own_unit(*v, (float)(tok & 0xFF) * 0.5f); m_append(*n, Node::mkd((double)((float)(tok & 0xFF) * 0.5f))); break;
                }
                break;
            }
            case V_APPEND_STRING: {
                U32          z = s0.substr(0, s0.find(U'\0'));
                ArenaText<C> t(s0), tz(z, true);
                LibCall      lc;
                switch (var % 4) {
                    case 0: append_in_own_unit(*v, StrT{(const C *)t.ptr, (SizeT)t.len}); m_append(*n, Node::mks(s0)); break;
                    case 1: {
                        StrT tmp{(const C *)t.ptr, (SizeT)t.len};
                        append_in_own_unit(*v, tmp);
                        m_append(*n, Node::mks(s0));
                        break;
                    }
                    case 2: append_in_own_unit(*v, SVT{(const C *)t.ptr, (SizeT)t.len}); m_append(*n, Node::mks(s0)); break;
                    default: append_in_own_unit(*v, (const C *)tz.ptr); m_append(*n, Node::mks(z)); break;
                }
                break;
            }
            case V_APPEND_CONTAINER: {
                Node         payload = gen_node((var & 1) ? (tok / 9) * 9 + 7 : (tok / 9) * 9 + 8, 1, s0);
                ArenaObj<VT> tmp;
                build_into(tmp.p, payload, true);
                {
                    LibCall lc;
                    if (payload.kind == Node::Array) {
                        if (var & 2)
                            append_in_own_unit(*v, static_cast<ArrT &&>(*tmp->GetArray()));
                        else
                            append_in_own_unit(*v, static_cast<const ArrT &>(*tmp->GetArray()));
                    } else {
                        if (var & 2)
                            append_in_own_unit(*v, static_cast<ObjT &&>(*tmp->GetObject()));
                        else
                            append_in_own_unit(*v, static_cast<const ObjT &>(*tmp->GetObject()));
                    }
                    tmp->~VT();
                }
                payload = deep_copy(payload);
                if (payload.kind == Node::Array) {
                    // a non-empty array is concatenated, an empty one is appended as an element
                    n->to_array();
                    if (payload.items.empty())
                        n->items.push_back(payload);
                    else
                        for (auto &it : payload.items) n->items.push_back(it);
                } else {
                    if (n->kind == Node::Object)
                        obj_merge(*n, payload);
                    else
                        m_append(*n, payload);
                }
                break;
            }
            case V_APPEND_VALUE_COPY: {
                if (!need_src()) return;
                Node copy = deep_copy(*sn);
                {
                    LibCall lc;
                    append_in_own_unit(*v, static_cast<const VT &>(*src));
                }
                if (n->kind == Node::Object && copy.kind == Node::Object)
                    obj_merge(*n, copy);
                else
                    m_append(*n, copy);
                break;
            }
            case V_APPEND_VALUE_MOVE: {
                if (!need_src()) return;
                Node moved = *sn;
                {
                    LibCall lc;
                    append_in_own_unit(*v, static_cast<VT &&>(*src));
                }
                if (n->kind == Node::Object && moved.kind == Node::Object)
                    obj_merge(*n, moved);
                else
                    m_append(*n, moved);
                *sn = Node{};
                break;
            }
            case V_SUBSCRIPT_KEY:
            case V_GET_KEY: {
                U32          z = s0.substr(0, s0.find(U'\0'));
                ArenaText<C> t(s0), tz(z, true);
                VT          *ref;
                U32          used = s0;
                {
                    LibCall lc;
                    if (kind == V_GET_KEY) {
                        if (var & 1)
                            ref = &v->Get((const C *)t.ptr, (SizeT)t.len);
                        else
                            ref = &v->Get(SVT{(const C *)t.ptr, (SizeT)t.len});
                    } else {
                        switch (var % 4) {
                            case 0: ref = &(*v)[(const C *)tz.ptr]; used = z; break;
                            case 1: ref = &(*v)[SVT{(const C *)t.ptr, (SizeT)t.len}]; break;
                            case 2: ref = &(*v)[StrT{(const C *)t.ptr, (SizeT)t.len}]; break;
                            default: {
                                StrT key{(const C *)t.ptr, (SizeT)t.len};
                                ref = &(*v)[key];
                            }
                        }
                    }
                }
                n->to_object();
                Node &slot = n->get_or_add(used);
                if (var & 8) {
                    LibCall lc;
                    *ref = (SizeT64)tok;
                    slot = Node::mku(tok);
                }
                break;
            }
            case V_SUBSCRIPT_INDEX: {
                if (n->kind == Node::Object && n->had_removal) return; // slot numbers are not part of the contract then
                size_t cur_size = n->kind == Node::Array ? n->items.size() : n->kind == Node::Object ? n->members.size() : 0;
                size_t idx      = (size_t)(tok % (cur_size + 3));
                VT    *ref;
                {
                    LibCall lc;
                    if (var & 1)
                        ref = &(*v)[(SizeT)idx];
                    else
                        ref = &(*v)[(int)idx];
                }
                Node *slot;
                if (n->kind == Node::Object && idx < n->members.size()) {
                    slot = &n->members[idx].second;
                } else {
                    n->to_array();
                    if (n->items.size() <= idx) n->items.resize(idx + 1);
                    slot = &n->items[idx];
                }
                if (var & 8) {
                    LibCall lc;
                    *ref  = (SizeT64)tok;
                    *slot = Node::mku(tok);
                }
                break;
            }
            case V_INSERT: {
                Node         payload = gen_node(tok, 1, s1);
                ArenaObj<VT> tmp;
                build_into(tmp.p, payload, true);
                ArenaText<C> t(s0);
                {
                    LibCall lc;
                    v->Insert(SVT{(const C *)t.ptr, (SizeT)t.len}, static_cast<VT &&>(*tmp));
                    tmp->~VT();
                }
                n->to_object();
                n->get_or_add(s0) = deep_copy(payload);
                break;
            }
            case V_MERGE_COPY:
            case V_MERGE_MOVE: {
                if (!need_src()) return;
                Node srcm = (kind == V_MERGE_COPY) ? deep_copy(*sn) : *sn;
                {
                    LibCall lc;
                    if (kind == V_MERGE_COPY)
                        v->Merge(static_cast<const VT &>(*src));
                    else
                        v->Merge(static_cast<VT &&>(*src));
                }
                if (n->kind == Node::Undefined) *n = Node::mk(Node::Array);
                if (n->kind == Node::Array && srcm.kind == Node::Array) {
                    for (auto &it : srcm.items)
                        if (it.kind != Node::Undefined) n->items.push_back(it);
                } else if (n->kind == Node::Object && srcm.kind == Node::Object) {
                    obj_merge(*n, srcm);
                }
                if (kind == V_MERGE_MOVE) *sn = Node{};
                break;
            }
            case V_REMOVE_KEY: {
                // half of the time aim at a key that exists
                U32 key = s0;
                if (n->kind == Node::Object && !n->members.empty() && (var & 4)) key = n->members[tok % n->members.size()].first;
                U32          z = key.substr(0, key.find(U'\0'));
                ArenaText<C> t(key), tz(z, true);
                U32          used = key;
                {
                    LibCall lc;
                    switch (var % 3) {
                        case 0: v->Remove((const C *)t.ptr, (SizeT)t.len); break;
                        case 1: v->Remove((const C *)tz.ptr); used = z; break;
                        default: {
                            StrT ks{(const C *)t.ptr, (SizeT)t.len};
                            v->Remove(ks);
                        }
                    }
                }
                if (n->kind == Node::Object) {
                    int at = n->find(used);
                    if (at >= 0) {
                        n->members.erase(n->members.begin() + at);
                        n->had_removal = true;
                        qsim::probe("value.remove-live-key");
                    }
                }
                break;
            }
            case V_REMOVE_INDEX: {
                if (n->kind == Node::Object && n->had_removal) return;
                size_t cur_size = n->kind == Node::Array ? n->items.size() : n->kind == Node::Object ? n->members.size() : 0;
                size_t idx      = (size_t)(tok % (cur_size + 2));
                {
                    LibCall lc;
                    if (var & 1)
                        v->RemoveIndex((SizeT)idx);
                    else
                        v->RemoveIndex((unsigned short)idx);
                }
                if (n->kind == Node::Array && idx < n->items.size()) {
                    n->items[idx] = Node{};
                } else if (n->kind == Node::Object && idx < n->members.size()) {
                    n->members.erase(n->members.begin() + (long)idx);
                    n->had_removal = true;
                }
                break;
            }
            case V_RESET: {
                LibCall lc;
                v->Reset();
                *n = Node{};
                break;
            }
            case V_COMPRESS: {
                {
                    LibCall lc;
                    v->Compress();
                }
                m_compress(*n);
                qsim::probe("value.compress");
                break;
            }
            case V_ROOT_COPY_CTOR: {
                Node copy = deep_copy(model[k]);
                {
                    LibCall lc;
                    root[j]->~VT();
                    new (root[j].p) VT(static_cast<const VT &>(*root[k]));
                }
                model[j] = copy;
                break;
            }
            case V_ROOT_MOVE_CTOR: {
                {
                    LibCall lc;
                    root[j]->~VT();
                    new (root[j].p) VT(static_cast<VT &&>(*root[k]));
                }
                model[j] = model[k];
                model[k] = Node{};
                break;
            }
            case V_ROOT_CTOR: {
                ArenaText<C> t(s0);
                Node         payload = gen_node((var & 1) ? (tok / 9) * 9 + 7 : (tok / 9) * 9 + 8, 1, s0);
                ArenaObj<VT> tmp;
                build_into(tmp.p, payload, true);
                {
                    LibCall lc;
                    root[j]->~VT();
                    switch (var % 14) {
                        case 0: new (root[j].p) VT(ValueType::Array, (SizeT)(tok % 9)); model[j] = Node::mk(Node::Array); break;
                        case 1: new (root[j].p) VT(ValueType::Object, (SizeT)(tok % 9)); model[j] = Node::mk(Node::Object); break;
                        case 2: new (root[j].p) VT(StrT{(const C *)t.ptr, (SizeT)t.len}); model[j] = Node::mks(s0); break;
                        case 3: {
                            StrT st{(const C *)t.ptr, (SizeT)t.len};
                            new (root[j].p) VT(static_cast<const StrT &>(st));
                            model[j] = Node::mks(s0);
                            break;
                        }
                        case 4: new (root[j].p) VT(SVT{(const C *)t.ptr, (SizeT)t.len}); model[j] = Node::mks(s0); break;
                        case 5: new (root[j].p) VT((const C *)t.ptr, (SizeT)t.len); model[j] = Node::mks(s0); break;
                        case 6: new (root[j].p) VT((SizeT64)tok); model[j] = Node::mku(tok); break;
                        case 7: new (root[j].p) VT((SizeT64I)(-(int64_t)tok)); model[j] = Node::mki(-(int64_t)tok); break;
                        case 8: new (root[j].p) VT(0.5 * (double)(tok & 0xFF)); model[j] = Node::mkd(0.5 * (double)(tok & 0xFF)); break;
                        case 9: new (root[j].p) VT(nullptr); model[j] = Node::mk(Node::Null); break;
                        case 10: new (root[j].p) VT((tok & 1) != 0); model[j] = Node::mk((tok & 1) ? Node::True : Node::False); break;
                        case 11: new (root[j].p) VT((unsigned int)(tok & 0xFFFF)); model[j] = Node::mku(tok & 0xFFFF); break;
                        case 12:
                            if (payload.kind == Node::Array)
                                new (root[j].p) VT(static_cast<ArrT &&>(*tmp->GetArray()));
                            else
                                new (root[j].p) VT(static_cast<ObjT &&>(*tmp->GetObject()));
                            model[j] = deep_copy(payload);
                            break;
                        default:
                            if (payload.kind == Node::Array)
                                new (root[j].p) VT(static_cast<const ArrT &>(*tmp->GetArray()));
                            else
                                new (root[j].p) VT(static_cast<const ObjT &>(*tmp->GetObject()));
                            model[j] = deep_copy(payload);
                    }
                    tmp->~VT();
                }
                break;
            }
            case V_SET_POINTER: {
                int pi = (int)(tok % NP);
                {
                    LibCall lc;
                    v->SetPointerToValue(ptee[pi].p);
                }
                *n     = Node::mk(Node::Ptr);
                n->ptr = pi;
                qsim::probe("value.pointer");
                break;
            }
            case V_ADD_POINTER: {
                int pi = (int)(tok % NP);
                {
                    LibCall lc;
                    v->AddPointerToValue(ptee[pi].p);
                }
                Node pn = Node::mk(Node::Ptr);
                pn.ptr  = pi;
                m_append(*n, pn);
                qsim::probe("value.pointer");
                break;
            }
            case V_POINTEE_UPDATE: {
                // pointee 3 is a value the harness may change while pointers to it exist: a pointer is an alias, every
                // read through it has to see the pointee as it is NOW (also when the pointee is itself a pointer)
                VT &p3 = *ptee[3];
                LibCall lc;
                switch (var % 4) {
                    case 0: p3 = (SizeT64)tok; pmodel[3] = Node::mku(tok); break;
                    case 1: {
                        int k3 = (int)(tok % 3);
                        p3.SetPointerToValue(ptee[k3].p);
                        pmodel[3]     = Node::mk(Node::Ptr);
                        pmodel[3].ptr = k3;
                        qsim::probe("value.pointer-chain");
                        break;
                    }
                    case 2: p3 = true; pmodel[3] = Node::mk(Node::True); break;
                    default: p3 = -(SizeT64I)(tok & 0xFFFF); pmodel[3] = Node::mki(-(int64_t)(tok & 0xFFFF)); break;
                }
                break;
            }
            case V_ASSIGN_TYPE: {
                // operator=(ValueType) only relabels; used as documented on values that own nothing
                if (n->kind == Node::Object || n->kind == Node::Array || n->kind == Node::String || n->kind == Node::Ptr) return;
                LibCall lc;
                switch (var % 4) {
                    case 0: assign_in_own_unit(*v, ValueType::True); *n = Node::mk(Node::True); break;
                    case 1: assign_in_own_unit(*v, ValueType::False); *n = Node::mk(Node::False); break;
                    case 2: assign_in_own_unit(*v, ValueType::Null); *n = Node::mk(Node::Null); break;
                    default: assign_in_own_unit(*v, ValueType::Undefined); *n = Node{}; break;
                }
                break;
            }
            case V_CHECKPOINT: {
                checkpoint(j, s1, var);
                break;
            }
            default: break;
        }
    }

    // ---- C08: stringify -> store -> parse -> compare
    void checkpoint(int j, const U32 &pre, int var) {
        Node norm = normalise(model[j], pmodel);
        if (!norm.is_container()) return;
        qsim::probe("value.checkpoint");
        ArenaObj<Stm> stream;
        ArenaText<C>  pt(pre);
        {
            LibCall lc;
            new (stream.p) Stm();
            if (var & 1) stream->Write(pt.ptr, (SizeT)pt.len); // pre-existing content
            root[j]->Stringify(*stream, 17U);
        }
        size_t prelen = (var & 1) ? pre.size() : 0;
        U32    all;
        if (stream->Length() < prelen || !read_units(stream->First(), stream->Length(), all, "stringify-stream")) {
            cx.fail("roundtrip", "roundtrip-stream", "Stringify left the stream shorter than its previous content");
            LibCall lc;
            stream->~Stm();
            return;
        }
        if (all.substr(0, prelen) != pre.substr(0, prelen)) cx.fail("roundtrip", "roundtrip-prefix", "Stringify disturbed what the stream already held");
        U32 text = all.substr(prelen);
        {
            LibCall lc;
            stream->~Stm();
        }
        if (cx.failed) return;
        // the text goes through the store (fault-free channel) into an exact-size buffer and is parsed back
        ArenaText<C> doc(text);
        ArenaObj<VT> restored;
        {
            LibCall lc;
            new (restored.p) VT(Qentem::JSON::Parse((const C *)doc.ptr, (SizeT)doc.len));
        }
        Node back;
        if (!read_back(restored.p, back, 0)) {
            LibCall lc;
            restored->~VT();
            return;
        }
        std::string why;
        if (!tree_equal(norm, back, why)) {
            cx.fail("roundtrip", "roundtrip-tree", "parse(stringify(tree)) differs from the tree: " + why + "; text: " + to_printable(text).substr(0, 200));
        } else {
            // fixed point
            ArenaObj<Stm> s2;
            U32           text2;
            {
                LibCall lc;
                new (s2.p) Stm();
                restored->Stringify(*s2, 17U);
            }
            read_units(s2->First(), s2->Length(), text2, "stringify-stream");
            {
                LibCall lc;
                s2->~Stm();
            }
            if (text2 != text) cx.fail("roundtrip", "roundtrip-fixed-point", "stringify(parse(text)) differs from text: " + to_printable(text).substr(0, 120) + " vs " + to_printable(text2).substr(0, 120));
        }
        {
            LibCall lc;
            restored->~VT();
        }
        if (cx.failed) return;
        // independent strict RFC 8259 reading of the text
        if (tree_well_formed(norm, cx.width)) {
            StrictJSON sj(text, cx.width);
            Node       dec;
            if (!sj.document(dec)) {
                cx.fail("roundtrip", "roundtrip-rfc8259", "emitted text is not RFC 8259 JSON: " + sj.err + "; text: " + to_printable(text).substr(0, 200));
            } else if (!tree_equal(norm, dec, why)) {
                cx.fail("roundtrip", "roundtrip-rfc8259-tree", "emitted text denotes a different tree: " + why + "; text: " + to_printable(text).substr(0, 200));
            }
            qsim::probe("value.checkpoint-strict");
        }
    }

    // read a library tree into a model tree through the public API (used for parse results)
    bool read_back(const VT *v, Node &out, int depth) {
        if (depth > 40) return false;
        switch (v->Type()) {
            case ValueType::Undefined: out = Node{}; return true;
            case ValueType::UIntLong: out = Node::mku(v->GetUInt64()); return true;
            case ValueType::IntLong: out = Node::mki(v->GetInt64()); return true;
            case ValueType::Double: out = Node::mkd(v->GetDouble()); return true;
            case ValueType::True: out = Node::mk(Node::True); return true;
            case ValueType::False: out = Node::mk(Node::False); return true;
            case ValueType::Null: out = Node::mk(Node::Null); return true;
            case ValueType::String: {
                out = Node::mk(Node::String);
                const StrT *s = v->GetString();
                if (!read_units(s->First(), s->Length(), out.str, "parsed-string")) {
                    cx.failed = true;
                    return false;
                }
                return true;
            }
            case ValueType::Array: {
                out = Node::mk(Node::Array);
                const ArrT *a = v->GetArray();
                for (size_t i = 0; i < a->Size(); i++) {
                    Node c;
                    if (!read_back(a->First() + i, c, depth + 1)) return false;
                    out.items.push_back(c);
                }
                return true;
            }
            case ValueType::Object: {
                out = Node::mk(Node::Object);
                const ObjT *o = v->GetObject();
                for (size_t i = 0; i < o->Size(); i++) {
                    const StrT *k = o->GetKey((SizeT)i);
                    if (k == nullptr) continue;
                    U32 key;
                    if (!read_units(k->First(), k->Length(), key, "parsed-key")) {
                        cx.failed = true;
                        return false;
                    }
                    Node c;
                    if (!read_back(o->GetValue((SizeT)i), c, depth + 1)) return false;
                    out.members.emplace_back(key, c);
                }
                return true;
            }
            default: out = Node{}; return true;
        }
    }
};

// ------------------------------------------------------------------------------------------------
// generation
// ------------------------------------------------------------------------------------------------
static U32 gen_string(Rng &r, int width) {
    // content classes: plain text, canonical integers, keywords, units that need escaping, multi-unit characters
    static const char *fixed[] = {"a", "b", "ab", "abc", "", "true", "false", "null", "0", "7", "42", "-5", "123456789012345678", "zeta", "_x"};
    uint64_t           cls    = r.below(10);
    if (cls < 4) return ascii(fixed[r.below(sizeof(fixed) / sizeof(fixed[0]))]);
    U32    s;
    size_t n = (size_t)r.below(9);
    if (cls == 4) {
        s.push_back("abcz_\"sx"[r.below(8)]);
    }
    for (size_t i = 0; i < n; i++) {
        uint64_t k = r.below(20);
        if (k < 8)
            s.push_back((char32_t)("abcxyz09"[k]));
        else if (k == 8)
            s.push_back('"');
        else if (k == 9)
            s.push_back('\\');
        else if (k == 10)
            s.push_back('/');
        else if (k == 11)
            s.push_back((char32_t)"\b\t\n\f\r"[r.below(5)]);
        else if (k == 12)
            s.push_back((char32_t)(1 + r.below(0x1f))); // other control characters
        else if (k == 13)
            s.push_back(0);
        else if (k == 14)
            s.push_back(0x7f);
        else if (k <= 17) {
            // (the second row: units whose LOW BYTE is a unit the escaper / parser treats specially — quote, backslash,
            // slash, control characters, space, NUL — for code that narrows a wide unit before classifying it)
            static const uint32_t cps[] = {0xE9, 0x20AC, 0x1F600, 0x10FFFF, 0x7FF, 0x800, 0xFFFF, 0x10000, 0xA0,
                                           0x0122, 0x015C, 0x012F, 0x2013, 0x010A, 0x0109, 0x0120, 0x0100, 0x017F, 0x1F622, 0x1F65C};
            encode_cp(cps[r.below(sizeof(cps) / sizeof(cps[0]))], width, s);
        } else if (k == 18) {
            // ill-formed on purpose (strict-text oracle is skipped for such trees)
            s.push_back(width == 1 ? 0xFF : width == 2 ? 0xDC00 : 0x110000);
        } else
            s.push_back(' ');
    }
    return s;
}

static void generate(Plan &plan, uint64_t seed, int tier) {
    Rng cfg(qsim::derive(seed, "cfg")), ops(qsim::derive(seed, "ops"));
    gen_heap_cfg(plan, cfg);
    int w             = (int)cfg.below(3);
    plan.cfg["width"] = w == 0 ? 1 : w == 1 ? 2 : 4;
    int width         = (int)plan.cfg["width"];
    if (cfg.chance(1, 120)) {
        // large container at the root: member counts around the powers of two from 128 to 1024 (item blocks larger than
        // a page, many rehashes), holes punched into it, then the keyed / indexed writes, compress, copies, merges and
        // checkpoints that have to rebuild or extend it
        plan.cfg["scenario"] = 2;
        // a thousand members stringified under exact-fit growth by a scalar byte loop is legitimately 10^8 steps: no
        // fixed budget separates that from a hang, so these runs are abandoned past the budget, not reported
        plan.cfg["soft_budget"] = 1;
        plan.cfg["exact_fit"]   = 0;
        int  j    = (int)cfg.below(2);
        bool obj  = cfg.chance(2, 3);
        auto push = [&](int kind, const U32 &k1, int64_t tok, int64_t var, bool light, int64_t root) {
            Op op;
            op.kind = kind;
            op.a[0] = root;
            op.a[1] = (int64_t)1 << 41; // the root itself
            op.a[2] = (int64_t)1 << 41;
            op.a[3] = tok;
            op.a[4] = var;
            op.a[5] = light ? 1 : 0;
            op.s.push_back(pack_units(k1));
            op.s.push_back(pack_units(ascii("x,")));
            plan.ops.push_back(op);
        };
        static const size_t around[] = {128, 256, 259, 300, 512, 1024};
        size_t              target   = around[cfg.below(6)];
        size_t              n        = cfg.chance(1, 2) ? target : target - 3 + (size_t)cfg.below(7);
        std::vector<U32>    pool;
        for (size_t i = 0; i < n + 40; i++) pool.push_back(ascii(((i % 2 ? "m" : "member-") + std::to_string((i * 7919) % 100003)).c_str()));
        std::vector<U32> live;
        for (size_t i = 0; i < n; i++) {
            if (obj) {
                push(ops.chance(3, 4) ? V_SUBSCRIPT_KEY : V_GET_KEY, pool[i], (int64_t)ops.below(1 << 20), 8 | (int64_t)ops.below(4), i + 1 < n, j);
                live.push_back(pool[i]);
            } else
                push(ops.chance(1, 2) ? V_APPEND_SCALAR : V_APPEND_STRING, pool[i], (int64_t)ops.below(1 << 20), (int64_t)ops.below(64), i + 1 < n, j);
        }
        size_t phases = 2 + (size_t)cfg.below(5);
        bool   boundary_first = cfg.chance(1, 2);
        for (size_t ph = 0; ph < phases; ph++) {
            uint64_t what = cfg.below(9);
            if (boundary_first && ph < 2) what = ph;
            switch (what) {
                case 0: { // holes: down to a power of two, or a random share
                    size_t total = obj ? live.size() : n;
                    size_t keep  = cfg.chance(1, 2) ? (size_t(1) << (1 + cfg.below(9))) : (size_t)cfg.below(total + 1);
                    size_t drop  = total > keep ? total - keep : 0;
                    for (size_t i = 0; i < drop; i++) {
                        if (obj) {
                            size_t at = (size_t)ops.below(live.size());
                            push(V_REMOVE_KEY, live[at], 0, (int64_t)ops.below(3), i + 1 < drop, j);
                            live.erase(live.begin() + (long)at);
                        } else
                            push(V_REMOVE_INDEX, U32(), (int64_t)ops.below(1 << 20), 0, i + 1 < drop, j);
                    }
                    break;
                }
                case 1: { // new members
                    size_t m = 1 + (size_t)ops.below(4);
                    for (size_t i = 0; i < m; i++) {
                        const U32 &k = pool[n + (size_t)ops.below(40)];
                        if (obj) {
                            static const int kinds[] = {V_SUBSCRIPT_KEY, V_GET_KEY, V_INSERT};
                            push(kinds[ops.below(3)], k, (int64_t)ops.below(1 << 20), 8 | (int64_t)ops.below(4), false, j);
                            if (std::find(live.begin(), live.end(), k) == live.end()) live.push_back(k);
                        } else
                            push(ops.chance(1, 2) ? V_APPEND_SCALAR : V_SUBSCRIPT_INDEX, k, (int64_t)ops.below(1 << 20), (int64_t)ops.below(64), false, j);
                    }
                    break;
                }
                case 2: push(V_COMPRESS, U32(), 0, 0, false, j); break;
                case 3: push(V_CHECKPOINT, U32(), (int64_t)ops.below(1 << 20), (int64_t)ops.below(64), false, j); break;
                case 4: push(V_ASSIGN_VALUE_COPY, U32(), 0, 0, false, 1 - j); break;
                case 5: push(ops.chance(1, 2) ? V_MERGE_COPY : V_MERGE_MOVE, U32(), 0, (int64_t)ops.below(64), false, 1 - j); break;
                case 6: push(ops.chance(1, 2) ? V_APPEND_VALUE_COPY : V_APPEND_VALUE_MOVE, U32(), 0, (int64_t)ops.below(64), false, 1 - j); break;
                case 7: push(ops.chance(1, 2) ? V_ROOT_COPY_CTOR : V_ROOT_MOVE_CTOR, U32(), 0, 0, false, 1 - j); break;
                default: push(V_ASSIGN_VALUE_MOVE, U32(), 0, 0, false, 1 - j);
            }
        }
        return;
    }
    size_t nops       = 4 + (size_t)cfg.below(tier ? 80 : 56);
    if (cfg.chance(1, 4)) nops = 2 + (size_t)cfg.below(8);
    uint64_t emphasis = cfg.next() | cfg.next();
    int      cp_every = cfg.chance(1, 3) ? 3 : 9;
    for (size_t i = 0; i < nops; i++) {
        Op op;
        do {
            op.kind = (int)ops.below(V_COUNT);
        } while (((emphasis >> (op.kind % 64)) & 1) == 0 && ops.chance(1, 2));
        if (ops.below((uint64_t)cp_every) == 0) op.kind = V_CHECKPOINT;
        op.a[0] = (int64_t)ops.below(2);
        op.a[1] = (int64_t)ops.below(512);
        if (ops.chance(1, 3)) op.a[1] = 7 + 8 * 7 + 64 * 7; // stop at the root for any size below 7
        op.a[2] = (int64_t)ops.below(512);
        op.a[3] = (int64_t)ops.below(1 << 20);
        op.a[4] = (int64_t)ops.below(64);
        op.s.push_back(pack_units(gen_string(ops, width)));
        op.s.push_back(pack_units(ops.chance(1, 2) ? gen_string(ops, width) : (ops.chance(1, 2) ? ascii("x,") : ascii("[1,"))));
        plan.ops.push_back(op);
    }
}

template <typename C>
static void drive(Plan &plan, Ctx &cx, size_t &executed) {
    ValW<C> *w = new ValW<C>(cx);
    w->check();
    for (auto &op : plan.ops) {
        if (cx.failed || qsim::run_aborted()) break;
        w->exec(op);
        executed++;
        if (!cx.failed && op.a[5] == 0) w->check(); // (bulk phases of the large-container scenario are checked at their end)
    }
    w->teardown();
    delete w;
}

static bool execute(Plan &plan) {
    size_t executed = 0;
    Ctx    cx;
    cx.width = (int)plan.get("width", 1);
    if (plan.get("scenario", 0) == 2) cx.node_cap = 2600;
    qsim::run_single([&]() {
        if (cx.width == 1)
            drive<char>(plan, cx, executed);
        else if (cx.width == 2)
            drive<char16_t>(plan, cx, executed);
        else
            drive<char32_t>(plan, cx, executed);
        if (!qsim::run_aborted()) qsim::check_leaks("value");
    });
    return executed >= 5;
}

// checkpoint (round trip) mismatches belong to C08; everything else in this world to C12
static const char *props(const std::string &cls) {
    if (cls == "leak") return "C16";
    if (cls == "roundtrip") return "C08";
    if (cls == "uaf-read" || cls == "uaf-write" || cls == "double-free" || cls == "bad-free") return "C12,C08,C16";
    return "C12,C08";
}

static const qsim::World world = {"value", generate, execute, props};
QSIM_REGISTER_WORLD(world)

} // namespace valw
} // namespace qw
QH_END
