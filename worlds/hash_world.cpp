// hash_world (C13, feeds C16): HArray<String<C>, V> and HList<String<C>> under seeded operation histories with
// colliding keys, compared after every step with an insertion-ordered map model.
#include "common.hpp"

#include <algorithm>
#include <map>

QH_BEGIN
namespace qw {
namespace hashw {

using Qentem::SizeT;
using qsim::LibCall;

struct Ctx {
    const char *sub{""};
    const char *opname{""};
    bool        failed{false};
    void fail(const char *obs, const std::string &detail) {
        if (!failed) qsim::report("model", std::string("hash:") + sub + ":" + opname + ":" + obs, detail);
        failed = true;
    }
};

// ------------------------------------------------------------------------------------------------
// value traits
// ------------------------------------------------------------------------------------------------
template <typename V>
struct Val;
template <>
struct Val<SizeT> {
    static SizeT make(int64_t t) {
        return (SizeT)t;
    }
    static bool eq(const SizeT &v, int64_t t) {
        return v == (SizeT)t;
    }
};
static size_t tok_len(int64_t t) {
    return t == 0 ? 0 : (size_t)(t % 29) + 1;
}
static char tok_ch(int64_t t, size_t i) {
    return (char)('a' + (t + (int64_t)i * 5) % 26);
}
template <>
struct Val<Qentem::String<char>> {
    static Qentem::String<char> make(int64_t t) {
        if (t == 0) return Qentem::String<char>{};
        char   buf[40];
        size_t n = tok_len(t);
        for (size_t i = 0; i < n; i++) buf[i] = tok_ch(t, i);
        return Qentem::String<char>{(const char *)buf, (SizeT)n};
    }
    static bool eq(const Qentem::String<char> &v, int64_t t) {
        size_t n = tok_len(t);
        if (v.Length() != n) return false;
        if (n == 0) return true;
        if (!qsim::readable(v.First(), n + 1)) return false;
        for (size_t i = 0; i < n; i++)
            if (v.First()[i] != tok_ch(t, i)) return false;
        return v.First()[n] == 0;
    }
};
template <>
struct Val<Qentem::Value<char>> {
    using VT = Qentem::Value<char>;
    static VT make(int64_t t) {
        if (t == 0) return VT{};
        switch (t % 3) {
            case 0: return VT{(Qentem::SizeT64)t};
            case 1: return VT{Val<Qentem::String<char>>::make(t)};
            default: {
                VT v;
                v += (Qentem::SizeT64)t;
                v += (Qentem::SizeT64)(t + 1);
                return v;
            }
        }
    }
    static bool eq(const VT &v, int64_t t) {
        if (t == 0) return v.IsUndefined();
        switch (t % 3) {
            case 0: return v.IsUInt64() && v.GetUInt64() == (Qentem::SizeT64)t;
            case 1: return v.IsString() && v.GetString() != nullptr && Val<Qentem::String<char>>::eq(*v.GetString(), t);
            default: {
                if (!v.IsArray() || v.Size() != 2) return false;
                const VT *a = v.GetValue(SizeT{0}), *b = v.GetValue(SizeT{1});
                return a && b && a->IsUInt64() && a->GetUInt64() == (Qentem::SizeT64)t && b->IsUInt64() &&
                       b->GetUInt64() == (Qentem::SizeT64)(t + 1);
            }
        }
    }
};

template <typename C>
static int cmp_units(const U32 &l, const U32 &r) {
    size_t n = std::min(l.size(), r.size());
    for (size_t i = 0; i < n; i++) {
        C a = (C)l[i], b = (C)r[i];
        if (a < b) return -1;
        if (a > b) return 1;
    }
    return l.size() < r.size() ? -1 : (l.size() > r.size() ? 1 : 0);
}

enum HOp {
    H_REINIT = 0, H_CTOR_SIZE, H_COPY_CTOR, H_MOVE_CTOR, H_COPY_ASSIGN, H_MOVE_ASSIGN, H_INSERT, H_GET, H_SUBSCRIPT,
    H_LOOKUP, H_REMOVE, H_REMOVE_INDEX, H_RENAME, H_MERGE_COPY, H_MERGE_MOVE, H_RESERVE, H_RESIZE, H_EXPECT,
    H_COMPRESS, H_CLEAR, H_RESET, H_SORT, H_INSERT_ALIAS, H_COUNT
};
static const char *h_op_name[] = {"reinit", "ctor-size", "copy-ctor", "move-ctor", "copy-assign", "move-assign",
                                  "insert", "get", "subscript", "lookup", "remove", "remove-index", "rename",
                                  "merge-copy", "merge-move", "reserve", "resize", "expect", "compress", "clear",
                                  "reset", "sort", "insert-alias"};

struct Entry {
    U32     key;
    int64_t tok;
};

template <typename C, typename V, bool IsList>
struct Types {
    using Key = Qentem::String<C>;
    using Tab = Qentem::HArray<Key, V>;
};
template <typename C, typename V>
struct Types<C, V, true> {
    using Key = Qentem::String<C>;
    using Tab = Qentem::HList<Key>;
};

template <typename C, typename V, bool IsList>
struct HashW {
    using Key              = Qentem::String<C>;
    using Tab              = typename Types<C, V, IsList>::Tab;
    static constexpr int K = 3;
    ArenaObj<Tab>        obj[K];
    std::vector<Entry>   model[K]; // live entries in iteration order
    std::vector<U32>     graveyard; // keys that were removed at some point (probed for absence)
    Ctx                 &cx;

    explicit HashW(Ctx &c) : cx(c) {
        LibCall lc;
        for (int i = 0; i < K; i++) new (obj[i].p) Tab();
    }
    void teardown() {
        LibCall lc;
        for (int i = 0; i < K; i++) obj[i]->~Tab();
    }

    static int find(const std::vector<Entry> &m, const U32 &key) {
        for (size_t i = 0; i < m.size(); i++)
            if (m[i].key == key) return (int)i;
        return -1;
    }
    static bool key_eq(const Key *k, const U32 &want) {
        if (k == nullptr) return false;
        if (k->Length() != want.size()) return false;
        U32 got;
        if (!read_units(k->First(), k->Length(), got, "hash-key")) return false;
        return got == want;
    }
    template <typename Item>
    static bool item_value_eq(const Item *it, int64_t tok, std::false_type) {
        return Val<V>::eq(it->Value, tok);
    }
    template <typename Item>
    static bool item_value_eq(const Item *, int64_t, std::true_type) {
        return true;
    }

    void check() {
        for (int i = 0; i < K && !cx.failed; i++) {
            const Tab &h = *obj[i];
            auto      &m = model[i];
            char       who[16];
            snprintf(who, sizeof who, "obj%d", i);
            size_t size = h.Size(), actual;
            {
                LibCall lc;
                actual = h.ActualSize();
            }
            if (actual != m.size()) {
                cx.fail("actual-size", std::string(who) + ": ActualSize()=" + std::to_string(actual) + " model=" + std::to_string(m.size()));
                return;
            }
            if (size < actual || h.Capacity() < size) {
                cx.fail("size", "Size() < ActualSize() or Capacity() < Size()");
                return;
            }
            if (h.IsEmpty() != (size == 0) || h.First() != h.Storage() || h.End() != h.First() + size ||
                h.Last() != (size ? h.Storage() + (size - 1) : nullptr)) {
                cx.fail("accessors", "First/End/Last/IsEmpty disagree with Size/Storage");
                return;
            }
            // iteration over physical slots yields the live entries in model order
            size_t mi = 0;
            long   last_index = -1;
            for (size_t s = 0; s < size; s++) {
                const Key *k;
                const typename Tab::HItem *it;
                {
                    LibCall lc;
                    k  = h.GetKey((SizeT)s);
                    it = h.GetItem((SizeT)s);
                }
                if ((k == nullptr) != (it == nullptr)) {
                    cx.fail("index-access", "GetKey(index) and GetItem(index) disagree about slot liveness");
                    return;
                }
                if (k == nullptr) continue;
                if (mi >= m.size()) {
                    cx.fail("iteration", std::string(who) + ": more live slots than live model entries");
                    return;
                }
                if (!key_eq(k, m[mi].key) || &it->Key != k) {
                    cx.fail("iteration-order", std::string(who) + ": slot " + std::to_string(s) + " holds the wrong key; expected \"" +
                                                   to_printable(m[mi].key) + "\"");
                    return;
                }
                if (!item_value_eq(it, m[mi].tok, std::integral_constant<bool, IsList>{})) {
                    cx.fail("iteration-value", std::string(who) + ": value of key \"" + to_printable(m[mi].key) + "\" differs from the last value stored");
                    return;
                }
                mi++;
            }
            if (mi != m.size()) {
                cx.fail("iteration", std::string(who) + ": fewer live slots than live model entries");
                return;
            }
            // lookups by key
            for (size_t e = 0; e < m.size(); e++) {
                ArenaText<C> t(m[e].key);
                bool         has;
                SizeT        idx = 0;
                bool         got_idx;
                const Key   *kk;
                const typename Tab::HItem *it;
                {
                    LibCall lc;
                    has     = h.Has(t.ptr, (SizeT)t.len);
                    got_idx = h.GetKeyIndex(idx, t.ptr, (SizeT)t.len);
                    kk      = got_idx ? h.GetKey(idx) : nullptr;
                    it      = h.GetItem(t.ptr, (SizeT)t.len, Qentem::StringUtils::Hash(t.ptr, (SizeT)t.len));
                }
                if (!has || !got_idx || it == nullptr) {
                    cx.fail("lookup-missing", std::string(who) + ": stored key \"" + to_printable(m[e].key) + "\" not found");
                    return;
                }
                if (!key_eq(kk, m[e].key) || &it->Key != kk) {
                    cx.fail("key-index", std::string(who) + ": GetKeyIndex/GetKey disagree for \"" + to_printable(m[e].key) + "\"");
                    return;
                }
                if ((long)idx <= last_index) {
                    cx.fail("key-index-order", "key indices do not increase along the iteration order");
                    return;
                }
                last_index = (long)idx;
                if (!item_value_eq(it, m[e].tok, std::integral_constant<bool, IsList>{})) {
                    cx.fail("lookup-value", std::string(who) + ": lookup of \"" + to_printable(m[e].key) + "\" does not return the last value stored");
                    return;
                }
            }
            // absent keys
            size_t probes = 0;
            for (size_t g = graveyard.size(); g > 0 && probes < 6; g--) {
                const U32 &key = graveyard[g - 1];
                if (find(m, key) >= 0) continue;
                probes++;
                ArenaText<C> t(key);
                bool         has, got_idx;
                SizeT        idx = 0;
                {
                    LibCall lc;
                    has     = h.Has(t.ptr, (SizeT)t.len);
                    got_idx = h.GetKeyIndex(idx, t.ptr, (SizeT)t.len);
                }
                if (has || got_idx) {
                    cx.fail("lookup-ghost", std::string(who) + ": key \"" + to_printable(key) + "\" is found although it is not stored");
                    return;
                }
            }
            qsim::obs(m.size() * 31337ULL + (uint64_t)i);
            for (auto &e : m) {
                qsim::obs((uint64_t)e.tok);
                for (char32_t c : e.key) qsim::obs((uint64_t)c);
            }
        }
    }

    // ---- value-carrying operations, specialised away for HList
    void do_insert(Tab &h, const U32 &key, int64_t tok, int variant, std::false_type) {
        ArenaText<C> t(key);
        LibCall      lc;
        switch (variant % 5) {
            case 0: h.Insert(Key{(const C *)t.ptr, (SizeT)t.len}, Val<V>::make(tok)); break;
            case 1: {
                Key k{(const C *)t.ptr, (SizeT)t.len};
                h.Insert(k, Val<V>::make(tok));
                break;
            }
            case 2: {
                V v = Val<V>::make(tok);
                h.Insert(Key{(const C *)t.ptr, (SizeT)t.len}, v);
                break;
            }
            case 3: {
                Key k{(const C *)t.ptr, (SizeT)t.len};
                V   v = Val<V>::make(tok);
                h.Insert(k, v);
                break;
            }
            default: h.Insert((const C *)t.ptr, (SizeT)t.len, Val<V>::make(tok));
        }
    }
    void do_insert(Tab &h, const U32 &key, int64_t, int variant, std::true_type) {
        ArenaText<C> t(key);
        LibCall      lc;
        switch (variant % 3) {
            case 0: h.Insert((const C *)t.ptr, (SizeT)t.len); break;
            case 1: {
                Key k{(const C *)t.ptr, (SizeT)t.len};
                h.Insert(k);
                break;
            }
            default: h.Insert(Key{(const C *)t.ptr, (SizeT)t.len});
        }
    }
    // get-or-create; returns false for HList (no such operation)
    bool do_get(Tab &h, const U32 &key, int64_t tok, bool assign, int variant, std::false_type) {
        bool         nul_free = key.find(U'\0') == U32::npos;
        ArenaText<C> t(key, true);
        LibCall      lc;
        V           *ref;
        switch (variant % 4) {
            case 0: ref = &h.Get((const C *)t.ptr, (SizeT)t.len); break;
            case 1:
                if (nul_free) {
                    ref = &h[(const C *)t.ptr];
                } else {
                    ref = &h.Get((const C *)t.ptr, (SizeT)t.len);
                }
                break;
            case 2: {
                Key k{(const C *)t.ptr, (SizeT)t.len};
                ref = &h[k];
                break;
            }
            default: ref = &h[Key{(const C *)t.ptr, (SizeT)t.len}];
        }
        if (assign) *ref = Val<V>::make(tok);
        return true;
    }
    bool do_get(Tab &, const U32 &, int64_t, bool, int, std::true_type) {
        return false;
    }
    // insert whose VALUE argument refers to an element of the same table (copied before anything can grow)
    bool do_insert_alias(Tab &h, const U32 &key, const U32 &old_key, int variant, std::false_type) {
        ArenaText<C> t(key), o(old_key);
        LibCall      lc;
        const V     *ref = h.GetValue((const C *)o.ptr, (SizeT)o.len);
        if (ref == nullptr) return false;
        if (variant & 1) {
            Key k{(const C *)t.ptr, (SizeT)t.len};
            h.Insert(k, *ref);
        } else {
            h.Insert(Key{(const C *)t.ptr, (SizeT)t.len}, *ref);
        }
        return true;
    }
    bool do_insert_alias(Tab &, const U32 &, const U32 &, int, std::true_type) {
        return false;
    }
    void do_get_value_check(const Tab &h, const U32 &key, const std::vector<Entry> &m, int variant, std::false_type) {
        ArenaText<C> t(key);
        V           *v;
        {
            LibCall lc;
            switch (variant % 3) {
                case 0: v = h.GetValue((const C *)t.ptr, (SizeT)t.len); break;
                case 1: {
                    Key k{(const C *)t.ptr, (SizeT)t.len};
                    v = h.GetValue(k);
                    break;
                }
                default: v = h.GetValue((const C *)t.ptr, (SizeT)t.len, Qentem::StringUtils::Hash(t.ptr, (SizeT)t.len));
            }
        }
        int at = find(m, key);
        if ((v != nullptr) != (at >= 0)) {
            cx.fail("get-value", "GetValue(key) found/missed a key contrary to the model");
            return;
        }
        if (v != nullptr && !Val<V>::eq(*v, m[(size_t)at].tok)) cx.fail("get-value", "GetValue(key) returned a value other than the last stored");
    }
    void do_get_value_check(const Tab &, const U32 &, const std::vector<Entry> &, int, std::true_type) {
    }

    void exec(const Op &op) {
        using ListTag = std::integral_constant<bool, IsList>;
        int     j    = (int)((uint64_t)op.a[0] % K);
        int     k    = (int)((uint64_t)op.a[1] % K);
        int     kind = (int)((uint64_t)op.kind % H_COUNT);
        int64_t tok  = op.a[3] & 0xFFFF;
        U32     key  = op.s.size() > 0 ? unpack_units(op.s[0]) : U32();
        U32     key2 = op.s.size() > 1 ? unpack_units(op.s[1]) : U32();
        for (auto &c : key) c &= unit_mask<C>();
        for (auto &c : key2) c &= unit_mask<C>();
        cx.opname = h_op_name[kind];
        Tab  &h = *obj[j];
        auto &m = model[j];
        switch (kind) {
            case H_REINIT: {
                LibCall lc;
                h.~Tab();
                new (&h) Tab();
                m.clear();
                break;
            }
            case H_CTOR_SIZE: {
                size_t n = (size_t)((uint64_t)op.a[2] % 20);
                {
                    LibCall lc;
                    h.~Tab();
                    new (&h) Tab((SizeT)n);
                }
                m.clear();
                if (h.Capacity() < n) cx.fail("capacity", "HArray(size) reserved less than size");
                break;
            }
            case H_COPY_CTOR: {
                if (j == k) break;
                LibCall lc;
                h.~Tab();
                new (&h) Tab(*obj[k]);
                m = model[k];
                break;
            }
            case H_MOVE_CTOR: {
                if (j == k) break;
                {
                    LibCall lc;
                    h.~Tab();
                    new (&h) Tab(static_cast<Tab &&>(*obj[k]));
                }
                m = model[k];
                model[k].clear();
                if (obj[k]->Size() != 0 || obj[k]->Capacity() != 0) cx.fail("moved-from", "moved-from table is not empty");
                break;
            }
            case H_COPY_ASSIGN: {
                LibCall lc;
                assign_in_own_unit(h, *obj[k]);
                if (j != k) m = model[k];
                break;
            }
            case H_MOVE_ASSIGN: {
                if (j == k) break;
                {
                    LibCall lc;
                    assign_in_own_unit(h, static_cast<Tab &&>(*obj[k]));
                }
                m = model[k];
                model[k].clear();
                if (obj[k]->Size() != 0 || obj[k]->Capacity() != 0) cx.fail("moved-from", "moved-from table is not empty");
                break;
            }
            case H_INSERT: {
                if (h.Size() == h.Capacity() && h.Size() != 0) qsim::probe("hash.grow-on-insert");
                do_insert(h, key, tok, (int)op.a[2], ListTag{});
                int at = find(m, key);
                if (at >= 0) {
                    if (!IsList) m[(size_t)at].tok = tok;
                    qsim::probe("hash.insert-existing");
                } else {
                    m.push_back(Entry{key, IsList ? 0 : tok});
                }
                break;
            }
            case H_GET:
            case H_SUBSCRIPT: {
                bool assign = (op.a[4] & 1) != 0;
                if (!do_get(h, key, tok, assign, kind == H_GET ? 0 : 1 + (int)((uint64_t)op.a[2] % 3), ListTag{})) break;
                int at = find(m, key);
                if (at >= 0) {
                    if (assign) m[(size_t)at].tok = tok;
                } else {
                    m.push_back(Entry{key, assign ? tok : 0});
                }
                break;
            }
            case H_LOOKUP: {
                do_get_value_check(h, key, m, (int)op.a[2], ListTag{});
                {
                    ArenaText<C> t(key);
                    bool         has;
                    {
                        LibCall lc;
                        Key     kk{(const C *)t.ptr, (SizeT)t.len};
                        has = h.Has(kk);
                    }
                    if (has != (find(m, key) >= 0)) cx.fail("has", "Has(key) contradicts the model");
                }
                break;
            }
            case H_REMOVE: {
                bool         nul_free = key.find(U'\0') == U32::npos;
                ArenaText<C> t(key, true);
                {
                    LibCall lc;
                    switch ((uint64_t)op.a[2] % 3) {
                        case 0: h.Remove((const C *)t.ptr, (SizeT)t.len); break;
                        case 1:
                            if (nul_free)
                                h.Remove((const C *)t.ptr);
                            else
                                h.Remove((const C *)t.ptr, (SizeT)t.len);
                            break;
                        default: {
                            Key kk{(const C *)t.ptr, (SizeT)t.len};
                            h.Remove(kk);
                        }
                    }
                }
                int at = find(m, key);
                if (at >= 0) {
                    m.erase(m.begin() + at);
                    graveyard.push_back(key);
                    qsim::probe("hash.remove-live");
                }
                break;
            }
            case H_REMOVE_INDEX: {
                size_t     idx = (size_t)((uint64_t)op.a[2] % (h.Size() + 2));
                const Key *kk;
                {
                    LibCall lc;
                    kk = h.GetKey((SizeT)idx);
                }
                U32 victim;
                bool live = kk != nullptr;
                if (live && !read_units(kk->First(), kk->Length(), victim, "hash-key")) {
                    cx.failed = true;
                    break;
                }
                {
                    LibCall lc;
                    h.RemoveIndex((SizeT)idx);
                }
                if (live) {
                    int at = find(m, victim);
                    if (at < 0) {
                        cx.fail("index-access", "GetKey(index) returned a key that is not stored");
                        break;
                    }
                    m.erase(m.begin() + at);
                    graveyard.push_back(victim);
                }
                break;
            }
            case H_RENAME: {
                ArenaText<C> f(key), t(key2);
                bool         r;
                {
                    LibCall lc;
                    Key     from{(const C *)f.ptr, (SizeT)f.len};
                    if (op.a[2] & 1) {
                        Key to{(const C *)t.ptr, (SizeT)t.len};
                        r = h.Rename(from, to);
                    } else {
                        r = h.Rename(from, Key{(const C *)t.ptr, (SizeT)t.len});
                    }
                }
                int  at   = find(m, key);
                bool want = (at >= 0) && (find(m, key2) < 0);
                if (r != want) {
                    cx.fail("rename-result", std::string("Rename returned ") + (r ? "true" : "false"));
                    break;
                }
                if (want) {
                    m[(size_t)at].key = key2;
                    graveyard.push_back(key);
                    qsim::probe("hash.rename");
                }
                break;
            }
            case H_MERGE_COPY: {
                std::vector<Entry> src = model[k];
                if (j == k) {
                    if (src.empty()) break;
                    qsim::probe("hash.self-merge");
                }
                {
                    LibCall lc;
                    append_in_own_unit(h, *obj[k]);
                }
                for (auto &e : src) {
                    int at = find(m, e.key);
                    if (at >= 0)
                        m[(size_t)at].tok = e.tok;
                    else
                        m.push_back(e);
                }
                break;
            }
            case H_MERGE_MOVE: {
                if (j == k) break;
                {
                    LibCall lc;
                    append_in_own_unit(h, static_cast<Tab &&>(*obj[k]));
                }
                for (auto &e : model[k]) {
                    int at = find(m, e.key);
                    if (at >= 0)
                        m[(size_t)at].tok = e.tok;
                    else
                        m.push_back(e);
                }
                model[k].clear();
                if (obj[k]->Size() != 0 || obj[k]->Capacity() != 0) cx.fail("moved-from", "merged-from table is not empty");
                break;
            }
            case H_RESERVE: {
                size_t n = (size_t)((uint64_t)op.a[2] % 24);
                {
                    LibCall lc;
                    h.Reserve((SizeT)n);
                }
                for (auto &e : m) graveyard.push_back(e.key);
                m.clear();
                if (h.Capacity() < n) cx.fail("capacity", "Reserve(n) left Capacity() < n");
                break;
            }
            case H_RESIZE: {
                size_t n = (size_t)((uint64_t)op.a[2] % (h.Size() + 6));
                // which live entries sit in physical slots below n (observed through the public index access)
                std::vector<Entry> survivors;
                if (n != 0) {
                    size_t mi = 0;
                    for (size_t s = 0; s < h.Size(); s++) {
                        const Key *kk;
                        {
                            LibCall lc;
                            kk = h.GetKey((SizeT)s);
                        }
                        if (kk == nullptr) continue;
                        if (mi < m.size() && s < n) survivors.push_back(m[mi]);
                        mi++;
                    }
                }
                if (n != 0 && n < h.Size()) qsim::probe("hash.resize-shrink");
                {
                    LibCall lc;
                    h.Resize((SizeT)n);
                }
                for (auto &e : m)
                    if (find(survivors, e.key) < 0) graveyard.push_back(e.key);
                m = survivors;
                if (h.Capacity() < n) cx.fail("capacity", "Resize(n) left Capacity() < n");
                break;
            }
            case H_EXPECT: {
                size_t n = (size_t)((uint64_t)op.a[2] % 24);
                {
                    LibCall lc;
                    h.Expect((SizeT)n);
                }
                if (h.Capacity() < h.Size() + n) cx.fail("capacity", "Expect(n) left Capacity() < Size()+n");
                break;
            }
            case H_COMPRESS: {
                if (h.Size() > m.size()) qsim::probe("hash.compress-drops-tombstones");
                {
                    LibCall lc;
                    h.Compress();
                }
                if (h.Size() != m.size()) cx.fail("compress", "Compress() left removed entries in place");
                break;
            }
            case H_CLEAR: {
                {
                    LibCall lc;
                    h.Clear();
                }
                for (auto &e : m) graveyard.push_back(e.key);
                m.clear();
                break;
            }
            case H_RESET: {
                {
                    LibCall lc;
                    h.Reset();
                }
                for (auto &e : m) graveyard.push_back(e.key);
                m.clear();
                break;
            }
            case H_INSERT_ALIAS: {
                if (m.empty()) break;
                Entry src = m[(size_t)((uint64_t)tok % m.size())];
                if (h.Size() == h.Capacity()) qsim::probe("hash.insert-alias-when-full");
                if (!do_insert_alias(h, key, src.key, (int)op.a[2], ListTag{})) break;
                int at = find(m, key);
                if (at >= 0)
                    m[(size_t)at].tok = src.tok;
                else
                    m.push_back(Entry{key, src.tok});
                break;
            }
            case H_SORT: {
                bool asc = (op.a[2] & 1) != 0;
                {
                    LibCall lc;
                    h.Sort(asc);
                }
                std::stable_sort(m.begin(), m.end(), [&](const Entry &a, const Entry &b) {
                    int c = cmp_units<C>(a.key, b.key);
                    return asc ? c < 0 : c > 0;
                });
                qsim::probe("hash.sort");
                break;
            }
            default: break;
        }
        if (graveyard.size() > 64) graveyard.erase(graveyard.begin(), graveyard.begin() + 32);
    }
};

// ------------------------------------------------------------------------------------------------
// generation: keys from small adversarial alphabets, with bucket collisions computed from the real hash
// ------------------------------------------------------------------------------------------------
template <typename C>
static std::vector<std::vector<U32>> &collision_groups() {
    // groups of short keys that share (hash & 0xFF): they collide at every capacity up to 256
    static std::vector<std::vector<U32>> groups;
    if (!groups.empty()) return groups;
    std::map<uint32_t, std::vector<U32>> by;
    static const char32_t                alpha[] = {'a', 'b', 'c', 'd', 'e', '0', '1', ' ', 0x7f, 0x80};
    std::vector<U32>                     cand;
    cand.push_back(U32());
    for (size_t len = 1; len <= 4; len++) {
        size_t total = 1;
        for (size_t i = 0; i < len; i++) total *= 10;
        for (size_t x = 0; x < total; x += (len == 4 ? 3 : 1)) {
            U32    s;
            size_t y = x;
            for (size_t i = 0; i < len; i++) {
                s.push_back(alpha[y % 10] & unit_mask<C>());
                y /= 10;
            }
            cand.push_back(s);
        }
    }
    for (auto &s : cand) {
        std::vector<C> buf(s.size() + 1);
        for (size_t i = 0; i < s.size(); i++) buf[i] = (C)s[i];
        uint32_t h = (uint32_t)Qentem::StringUtils::Hash((const C *)buf.data(), (SizeT)s.size());
        by[h & 0xFF].push_back(s);
    }
    for (auto &kv : by)
        if (kv.second.size() >= 3) groups.push_back(kv.second);
    return groups;
}

// 16-bit keys whose hash, before the library forces the top bit, has its low 31 bits all zero: on a correct tree they
// hash to exactly 0x80000000 (bucket 0 at every capacity, the smallest legal hash). StringUtils::Hash adds the last
// unit it consumes (the middle one) unscaled, so one open unit is solved for with the library's own function.
static std::vector<U32> &boundary_hash_keys() {
    static std::vector<U32> found;
    static bool             done = false;
    if (done) return found;
    done = true;
    Rng r(qsim::derive(0x5eedULL, "boundary-hash-keys"));
    for (int tries = 0; tries < 1500000 && found.size() < 6; tries++) {
        size_t                len = 8 + 2 * (size_t)r.below(4); // even: the middle unit is then consumed once only
        std::vector<char16_t> buf(len + 1);
        for (size_t i = 0; i < len; i++) buf[i] = (char16_t)(1 + r.below(0xFFFE));
        size_t off = 0, l = len, mid = 0;
        while (off < l) {
            --l;
            mid = l;
            ++off;
        }
        buf[mid]   = 0;
        uint32_t f = (uint32_t)Qentem::StringUtils::Hash((const char16_t *)buf.data(), (SizeT)len);
        uint32_t c = (0u - f) & 0x7FFFFFFFu;
        if (c == 0 || c > 0xFFFFu) continue;
        buf[mid] = (char16_t)c;
        uint32_t h = (uint32_t)Qentem::StringUtils::Hash((const char16_t *)buf.data(), (SizeT)len);
        if ((h & 0x7FFFFFFFu) != 0) continue;
        U32 s;
        for (size_t i = 0; i < len; i++) s.push_back(buf[i]);
        found.push_back(s);
    }
    return found;
}

static U32 random_key(Rng &r, int width) {
    static const char32_t alpha[] = {'a', 'b', 'c', 'a', 'b', 0, ' ', 'z', 0x7f, 0x80, 0xff, 0x100, 0xffff};
    size_t                n       = (size_t)r.below(5);
    if (r.chance(1, 10)) n = (size_t)r.below(40);
    U32 s;
    for (size_t i = 0; i < n; i++) {
        char32_t c = alpha[r.below(r.chance(3, 4) ? 5 : 13)];
        s.push_back(c & (width == 1 ? 0xFFu : 0xFFFFu));
    }
    return s;
}

enum Sub { HS_C_SIZET = 0, HS_C_STR, HS_C_VALUE, HS_U_SIZET, HS_LIST_C, HS_LIST_U, HS_COUNT };
static const char *sub_name[] = {"harray-char-sizet", "harray-char-string", "harray-char-value", "harray-u16-sizet", "hlist-char", "hlist-u16"};

static void generate(Plan &plan, uint64_t seed, int tier) {
    Rng cfg(qsim::derive(seed, "cfg")), ops(qsim::derive(seed, "ops"));
    gen_heap_cfg(plan, cfg);
    int sub           = (int)cfg.below(HS_COUNT);
    plan.cfg["mode"]  = sub;
    int width         = (sub == HS_U_SIZET || sub == HS_LIST_U) ? 2 : 1;
    plan.cfg["width"] = width;
    // the key universe of this run: a few random keys, a collision group, prefixes of each other, the empty key
    std::vector<U32> keys;
    auto            &groups = width == 1 ? collision_groups<char>() : collision_groups<char16_t>();
    size_t           nk     = 3 + (size_t)cfg.below(12);
    if (!groups.empty() && cfg.chance(3, 4)) {
        auto  &g = groups[cfg.below(groups.size())];
        size_t take = 2 + (size_t)cfg.below(std::min<size_t>(6, g.size() - 1));
        for (size_t i = 0; i < take; i++) keys.push_back(g[cfg.below(g.size())]);
    }
    while (keys.size() < nk) keys.push_back(random_key(cfg, width));
    if (cfg.chance(1, 2)) keys.push_back(U32());
    if (cfg.chance(1, 2)) {
        keys.push_back(ascii("ab"));
        keys.push_back(ascii("abc"));
        keys.push_back(ascii("a"));
    }
    if (width == 2) {
        // own stream: the draws of `cfg` and `ops` are the same with and without these keys
        Rng bk(qsim::derive(seed, "boundary-keys"));
        if (bk.chance(1, 3)) {
            auto &bh = boundary_hash_keys();
            for (size_t i = 0, n = 1 + (size_t)bk.below(3); i < n && !bh.empty(); i++) keys.push_back(bh[bk.below(bh.size())]);
        }
    }
    if (cfg.chance(1, 90)) {
        // large table: sizes around the powers of two from 128 to 1024 (page-sized item blocks, long partitions in
        // Sort, many rehashes), holes in it, then the operations that rebuild or extend it. Keys are distinct texts
        // with shared prefixes; bulk phases are checked once, at their end.
        plan.cfg["scenario"] = 2;
        plan.cfg["soft_budget"] = 1; // (legitimately heavy: see the value world's large-container scenario)
        int  j    = (int)cfg.below(3);
        auto push = [&](int kind, const U32 &k1, int64_t a2, bool light) {
            Op op;
            op.kind = kind;
            op.a[0] = j;
            op.a[1] = (j + 1) % 3;
            op.a[2] = a2;
            op.a[3] = (int64_t)(1 + ops.below(60000));
            op.a[4] = 1;
            op.a[5] = light ? 1 : 0;
            op.s.push_back(pack_units(k1));
            op.s.push_back(pack_units(U32()));
            plan.ops.push_back(op);
        };
        static const size_t around[] = {128, 256, 259, 300, 512, 600, 1024};
        size_t              target   = around[cfg.below(7)];
        size_t              n        = cfg.chance(1, 2) ? target : target - 3 + (size_t)cfg.below(7); // exactly full, or near it
        std::vector<U32>    pool;
        for (size_t i = 0; i < n + 40; i++) {
            std::string t = (i % 3 == 0 ? "k" : i % 3 == 1 ? "key-" : "") + std::to_string((i * 7919) % 100003);
            pool.push_back(ascii(t.c_str()));
        }
        bool presorted = cfg.chance(1, 3);
        if (presorted) std::sort(pool.begin(), pool.begin() + (long)n);
        if (cfg.chance(1, 2)) push(H_CTOR_SIZE, U32(), (int64_t)(1 + cfg.below(9)), false);
        std::vector<U32> live;
        for (size_t i = 0; i < n; i++) {
            push(ops.chance(3, 4) ? H_INSERT : H_GET, pool[i], (int64_t)ops.below(8), i + 1 < n);
            live.push_back(pool[i]);
        }
        size_t phases = 2 + (size_t)cfg.below(5);
        // half of the histories start with the boundary every growth policy has: holes punched into a table, then a
        // keyed write of a new key
        bool boundary_first = cfg.chance(1, 2);
        for (size_t ph = 0; ph < phases; ph++) {
            uint64_t what = cfg.below(8);
            if (boundary_first && ph < 2) what = ph;
            switch (what) {
                case 0: { // remove down to a power of two, or a random share
                    size_t keep = cfg.chance(1, 2) ? (size_t(1) << (1 + cfg.below(9))) : (size_t)cfg.below(live.size() + 1);
                    while (live.size() > keep && !live.empty()) {
                        size_t at = (size_t)ops.below(live.size());
                        push(H_REMOVE, live[at], (int64_t)ops.below(3), live.size() - 1 > keep);
                        live.erase(live.begin() + (long)at);
                    }
                    break;
                }
                case 1: { // a few more keys: keyed writes into a full table with holes
                    size_t m = 1 + (size_t)ops.below(4);
                    for (size_t i = 0; i < m; i++) {
                        const U32 &k = pool[n + (size_t)ops.below(40)];
                        push(ops.chance(1, 2) ? H_INSERT : H_SUBSCRIPT, k, (int64_t)ops.below(8), false);
                        if (std::find(live.begin(), live.end(), k) == live.end()) live.push_back(k);
                    }
                    break;
                }
                case 2: push(H_SORT, U32(), 1, false); break;
                case 3: push(H_SORT, U32(), 0, false); break;
                case 4: push(ops.chance(1, 2) ? H_COMPRESS : H_EXPECT, U32(), (int64_t)ops.below(6), false); break;
                case 5: push(ops.chance(1, 2) ? H_MERGE_COPY : H_COPY_ASSIGN, U32(), 0, false); break;
                case 6: push(H_RESIZE, U32(), (int64_t)ops.below(10), false); break;
                default:
                    for (size_t i = 0; i < 4 && !live.empty(); i++) push(H_LOOKUP, live[ops.below(live.size())], (int64_t)ops.below(3), false);
            }
        }
        return;
    }
    if (cfg.chance(1, 4)) {
        // phase-structured history on one table: membership changes in bulk, then the operations that rebuild or
        // reuse the chains right after them (faults placed after a membership change, not uniformly)
        plan.cfg["scenario"] = 1;
        int  j    = (int)cfg.below(3);
        auto push = [&](int kind, const U32 &k1, const U32 &k2, int64_t a2) {
            Op op;
            op.kind = kind;
            op.a[0] = j;
            op.a[1] = (int64_t)ops.below(3);
            if (op.a[1] == j) op.a[1] = (j + 1) % 3;
            op.a[2] = a2;
            op.a[3] = (int64_t)(1 + ops.below(60000));
            op.a[4] = 1;
            op.s.push_back(pack_units(k1));
            op.s.push_back(pack_units(k2));
            plan.ops.push_back(op);
        };
        std::vector<U32> live;
        if (cfg.chance(2, 3)) push(H_CTOR_SIZE, U32(), U32(), (int64_t)(1 + cfg.below(9)));
        // skeletons of suspicious orders (each step kept with probability 4/5, random phases mixed in)
        static const int skeletons[][8] = {
            {0, 2, 4, 5, 0, 3, 10, -1},  // fill, remove all, sort, clear, fill, remove some, lookup
            {0, 3, 4, 0, 6, 10, -1, -1}, // fill, remove some, sort, fill, rename, lookup
            {0, 2, 5, 0, 6, 3, 10, -1},  // fill, remove all, clear, fill, rename, remove some, lookup
            {0, 3, 8, 0, 3, 7, 10, -1},  // fill, remove some, merge/copy, fill, remove some, compress/expect, lookup
            {0, 2, 4, 0, 3, 9, 10, -1},  // fill, remove all, sort, fill, remove some, resize, lookup
            {0, 3, 9, 0, 4, 3, 10, -1},  // fill, remove some, resize, fill, sort, remove some, lookup
        };
        std::vector<int> order;
        if (cfg.chance(2, 3)) {
            const int *sk = skeletons[cfg.below(6)];
            for (int i = 0; i < 8 && sk[i] >= 0; i++) {
                if (cfg.chance(4, 5)) order.push_back(sk[i]);
                if (cfg.chance(1, 5)) order.push_back((int)cfg.below(11));
            }
        } else {
            size_t phases = 3 + (size_t)cfg.below(6);
            for (size_t ph = 0; ph < phases; ph++) order.push_back((int)cfg.below(11));
        }
        for (int phase : order) {
            switch (phase) {
                case 0:
                case 1: { // fill
                    size_t n = 1 + (size_t)ops.below(6);
                    for (size_t i = 0; i < n; i++) {
                        const U32 &k = keys[ops.below(keys.size())];
                        push(ops.chance(1, 2) ? H_INSERT : H_GET, k, U32(), (int64_t)ops.below(8));
                        if (std::find(live.begin(), live.end(), k) == live.end()) live.push_back(k);
                    }
                    break;
                }
                case 2: { // remove everything that is stored
                    for (auto &k : live) push(H_REMOVE, k, U32(), (int64_t)ops.below(3));
                    live.clear();
                    break;
                }
                case 3: { // remove some
                    for (size_t i = 0; i < live.size();) {
                        if (ops.chance(1, 2)) {
                            push(H_REMOVE, live[i], U32(), (int64_t)ops.below(3));
                            live.erase(live.begin() + (long)i);
                        } else
                            i++;
                    }
                    break;
                }
                case 4: push(H_SORT, U32(), U32(), (int64_t)ops.below(2)); break;
                case 5: push(H_CLEAR, U32(), U32(), 0); live.clear(); break;
                case 6: {
                    if (live.empty()) break;
                    const U32 &from = live[ops.below(live.size())];
                    const U32 &to   = keys[ops.below(keys.size())];
                    push(H_RENAME, from, to, (int64_t)ops.below(2));
                    break; // (the model decides whether it succeeded; 'live' is only a generation aid)
                }
                case 7: push(ops.chance(1, 2) ? H_COMPRESS : H_EXPECT, U32(), U32(), (int64_t)ops.below(6)); break;
                case 8: push(ops.chance(1, 2) ? H_MERGE_COPY : H_COPY_ASSIGN, U32(), U32(), 0); break;
                case 9: push(H_RESIZE, U32(), U32(), (int64_t)ops.below(10)); break;
                default: push(H_LOOKUP, keys[ops.below(keys.size())], U32(), (int64_t)ops.below(3));
            }
        }
        return;
    }
    size_t nops = 4 + (size_t)cfg.below(tier ? 110 : 70);
    if (cfg.chance(1, 4)) nops = 2 + (size_t)cfg.below(10);
    uint64_t emphasis = cfg.next();
    for (size_t i = 0; i < nops; i++) {
        Op op;
        do {
            op.kind = (int)ops.below(H_COUNT);
            // inserts / lookups / removes dominate
            static const int common[] = {H_INSERT, H_INSERT, H_GET, H_SUBSCRIPT, H_REMOVE, H_REMOVE, H_RENAME, H_LOOKUP};
            if (ops.chance(1, 2)) op.kind = common[ops.below(8)];
        } while (((emphasis >> (op.kind % 64)) & 1) == 0 && ops.chance(1, 2));
        op.a[0] = (int64_t)ops.below(3);
        op.a[1] = (int64_t)ops.below(3);
        if (ops.chance(1, 8)) op.a[1] = op.a[0];
        op.a[2] = (int64_t)ops.below(64);
        op.a[3] = (int64_t)(1 + ops.below(60000));
        op.a[4] = (int64_t)ops.below(4);
        op.s.push_back(pack_units(keys[ops.below(keys.size())]));
        op.s.push_back(pack_units(ops.chance(1, 2) ? keys[ops.below(keys.size())] : random_key(ops, width)));
        plan.ops.push_back(op);
    }
}

template <typename W>
static void drive(Plan &plan, Ctx &cx, size_t &executed) {
    W *w = new W(cx);
    for (auto &op : plan.ops) {
        if (cx.failed || qsim::run_aborted()) break;
        w->exec(op);
        executed++;
        // inside a bulk phase of a large-table scenario (a[5] set) the full comparison, which is linear in the table
        // and the graveyard, waits for the end of the phase
        if (!cx.failed && op.a[5] == 0) w->check();
    }
    w->teardown();
    delete w;
}

static bool execute(Plan &plan) {
    size_t executed = 0;
    Ctx    cx;
    int    sub = (int)((uint64_t)plan.get("mode", 0) % HS_COUNT);
    cx.sub     = sub_name[sub];
    qsim::run_single([&]() {
        switch (sub) {
            case HS_C_SIZET: drive<HashW<char, SizeT, false>>(plan, cx, executed); break;
            case HS_C_STR: drive<HashW<char, Qentem::String<char>, false>>(plan, cx, executed); break;
            case HS_C_VALUE: drive<HashW<char, Qentem::Value<char>, false>>(plan, cx, executed); break;
            case HS_U_SIZET: drive<HashW<char16_t, SizeT, false>>(plan, cx, executed); break;
            case HS_LIST_C: drive<HashW<char, SizeT, true>>(plan, cx, executed); break;
            default: drive<HashW<char16_t, SizeT, true>>(plan, cx, executed); break;
        }
        if (!qsim::run_aborted()) qsim::check_leaks("hash");
    });
    return executed >= 5;
}

static const char *props(const std::string &cls) {
    if (cls == "leak") return "C16";
    if (cls == "uaf-read" || cls == "uaf-write" || cls == "double-free" || cls == "bad-free") return "C13,C16";
    return "C13";
}

static const qsim::World world = {"hash", generate, execute, props};
QSIM_REGISTER_WORLD(world)

} // namespace hashw
} // namespace qw
QH_END
