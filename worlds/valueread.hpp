// Reads a library Value tree into a model tree through the public API with checked reads ("walk it completely:
// every node readable, every string NUL-terminated at its length").
#ifndef QSIM_VALUEREAD_HPP
#define QSIM_VALUEREAD_HPP

#include "common.hpp"
#include "docmodel.hpp"

QH_BEGIN
namespace qw {

template <typename C>
inline bool read_tree(const Qentem::Value<C> *v, Node &out, std::string &err, int depth = 0) {
    using VT = Qentem::Value<C>;
    using Qentem::SizeT;
    using Qentem::ValueType;
    if (depth > 5000) {
        err = "tree deeper than 5000";
        return false;
    }
    if (!qsim::readable(v, sizeof(VT))) {
        err = "value header outside any live block";
        return false;
    }
    switch (v->Type()) {
        case ValueType::Undefined: out = Node{}; return true;
        case ValueType::UIntLong: out = Node::mku(v->GetUInt64()); return true;
        case ValueType::IntLong: out = Node::mki(v->GetInt64()); return true;
        case ValueType::Double: out = Node::mkd(v->GetDouble()); return true;
        case ValueType::True: out = Node::mk(Node::True); return true;
        case ValueType::False: out = Node::mk(Node::False); return true;
        case ValueType::Null: out = Node::mk(Node::Null); return true;
        case ValueType::String: {
            out           = Node::mk(Node::String);
            const auto *s = v->GetString();
            U32         tmp;
            if (s->First() == nullptr) {
                if (s->Length() != 0) {
                    err = "string without storage";
                    return false;
                }
                return true;
            }
            if (!read_units(s->First(), (size_t)s->Length() + 1, tmp, "tree-string")) {
                err = "string storage not readable";
                return false;
            }
            if (tmp[s->Length()] != 0) {
                err = "string not NUL-terminated at its length";
                return false;
            }
            tmp.resize(s->Length());
            out.str = tmp;
            return true;
        }
        case ValueType::Array: {
            out           = Node::mk(Node::Array);
            const auto *a = v->GetArray();
            if (a->Size() != 0 && !qsim::readable(a->First(), (size_t)a->Size() * sizeof(VT))) {
                err = "array storage not readable";
                return false;
            }
            for (size_t i = 0; i < a->Size(); i++) {
                Node c;
                if (!read_tree<C>(a->First() + i, c, err, depth + 1)) return false;
                out.items.push_back(c);
            }
            return true;
        }
        case ValueType::Object: {
            out           = Node::mk(Node::Object);
            const auto *o = v->GetObject();
            for (size_t i = 0; i < o->Size(); i++) {
                const auto *k = o->GetKey((SizeT)i);
                if (k == nullptr) continue;
                U32 key;
                if (k->First() != nullptr) {
                    if (!read_units(k->First(), (size_t)k->Length() + 1, key, "tree-key") || key[k->Length()] != 0) {
                        err = "object key not readable / not terminated";
                        return false;
                    }
                    key.resize(k->Length());
                } else if (k->Length() != 0) {
                    err = "key without storage";
                    return false;
                }
                Node c;
                if (!read_tree<C>(o->GetValue((SizeT)i), c, err, depth + 1)) return false;
                out.members.emplace_back(key, c);
            }
            return true;
        }
        default: err = "unexpected value kind in a parsed tree"; return false;
    }
}

// loose structural comparison used where exact numeric accuracy / code point decoding is the business of
// properties that are not decided here (C06, C09): same shape, member order, kinds of scalars, numbers close
inline bool shape_equal(const Node &a, const Node &b, std::string &why, const std::string &path = "$") {
    auto isnum = [](const Node &n) { return n.kind == Node::UInt || n.kind == Node::Int || n.kind == Node::Double; };
    if (isnum(a) && isnum(b)) {
        auto   todbl = [](const Node &n) { return n.kind == Node::UInt ? (double)n.u : n.kind == Node::Int ? (double)n.i : n.d; };
        double x = todbl(a), y = todbl(b);
        double tol = 1e-13 * std::max(std::fabs(x), std::fabs(y));
        if (!(std::fabs(x - y) <= tol)) {
            why = path + ": numbers differ grossly";
            return false;
        }
        return true;
    }
    if (a.kind != b.kind) {
        why = path + ": kinds differ";
        return false;
    }
    if (a.kind == Node::Object) {
        if (a.members.size() != b.members.size()) {
            why = path + ": member counts differ";
            return false;
        }
        for (size_t k = 0; k < a.members.size(); k++)
            if (!shape_equal(a.members[k].second, b.members[k].second, why, path + "." + std::to_string(k))) return false;
    } else if (a.kind == Node::Array) {
        if (a.items.size() != b.items.size()) {
            why = path + ": element counts differ";
            return false;
        }
        for (size_t k = 0; k < a.items.size(); k++)
            if (!shape_equal(a.items[k], b.items[k], why, path + "[" + std::to_string(k) + "]")) return false;
    }
    return true;
}

} // namespace qw
QH_END

#endif
