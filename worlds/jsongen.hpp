// Generator of RFC 8259 documents in every lexical shape (plain C++).
#ifndef QSIM_JSONGEN_HPP
#define QSIM_JSONGEN_HPP

#include "docmodel.hpp"
#include "../sim/rt.hpp"

namespace qw {

struct JsonGen {
    qsim::Rng &r;
    int        width;
    bool       compact;
    size_t     budget; // remaining nodes

    JsonGen(qsim::Rng &rng, int w, size_t nodes) : r(rng), width(w), compact(rng.chance(1, 2)), budget(nodes) {
    }
    void ws(U32 &o) {
        if (compact) return;
        size_t n = (size_t)r.below(3);
        for (size_t i = 0; i < n; i++) o.push_back((char32_t)" \t\n\r"[r.below(4)]);
    }
    void hex4(U32 &o, uint32_t v) {
        bool               upper = r.chance(1, 2);
        static const char *lo = "0123456789abcdef", *up = "0123456789ABCDEF";
        for (int s = 12; s >= 0; s -= 4) o.push_back((char32_t)(upper ? up : lo)[(v >> s) & 15]);
    }
    void string(U32 &o, size_t maxlen) {
        o.push_back('"');
        size_t n = (size_t)r.below(maxlen + 1);
        for (size_t i = 0; i < n; i++) {
            uint64_t k = r.below(26);
            uint32_t cp;
            if (k == 25) {
                // a surrogate escape that stands alone (grammatical per RFC 8259 section 7, whatever it decodes to): the
                // parser must not take the units that follow it for the second half of a pair
                static const uint32_t lone[] = {0xD800, 0xD83D, 0xD8FF, 0xD900, 0xDA00, 0xDBFF, 0xDC00, 0xDE00, 0xDFFF};
                o.push_back('\\');
                o.push_back('u');
                hex4(o, lone[r.below(9)]);
                continue;
            }
            if (k < 12)
                cp = (uint32_t)"abcdefghij k"[k];
            else if (k == 12)
                cp = '"';
            else if (k == 13)
                cp = '\\';
            else if (k == 14)
                cp = '/';
            else if (k == 15)
                cp = (uint32_t)"\b\f\n\r\t"[r.below(5)];
            else if (k == 16)
                cp = (uint32_t)r.below(0x20);
            else if (k == 17)
                cp = 0x7f + (uint32_t)r.below(0x80);
            else if (k == 18)
                cp = 0x100 + (uint32_t)r.below(0x700);
            else if (k == 19)
                cp = 0x800 + (uint32_t)r.below(0xD000);
            else if (k == 20)
                cp = 0xE000 + (uint32_t)r.below(0x2000);
            else if (k == 21)
                cp = 0x10000 + (uint32_t)r.below(0x40000); // pairs with a high surrogate in D800..D8FF
            else if (k == 22)
                cp = 0x50000 + (uint32_t)r.below(0xC0000);
            else if (k == 23) {
                // wide units whose low byte is a unit with a meaning of its own (quote, backslash, control, space, NUL)
                static const uint32_t look[] = {0x0122, 0x015C, 0x012F, 0x2013, 0x010A, 0x0109, 0x0120, 0x0100, 0x017F, 0x1F622, 0x1F65C, 0x2022, 0x205C};
                cp = look[r.below(sizeof(look) / sizeof(look[0]))];
            } else
                cp = '0' + (uint32_t)r.below(10);
            bool must_escape = cp < 0x20 || cp == '"' || cp == '\\';
            bool escape      = must_escape || r.chance(1, 6);
            if (cp >= 0x50000) escape = false; // written raw (the escape form for these is a C06 matter, not claimed here)
            if (!escape) {
                encode_cp(cp, width, o);
                continue;
            }
            static const char *shorts = "\"\\/\b\f\n\r\t";
            static const char *letter = "\"\\/bfnrt";
            const char        *sp     = cp < 0x80 ? strchr(shorts, (int)cp) : nullptr;
            if (sp != nullptr && cp != 0 && r.chance(3, 4)) {
                o.push_back('\\');
                o.push_back((char32_t)letter[sp - shorts]);
            } else if (cp < 0x10000) {
                o.push_back('\\');
                o.push_back('u');
                hex4(o, cp);
            } else {
                uint32_t v = cp - 0x10000;
                o.push_back('\\');
                o.push_back('u');
                hex4(o, 0xD800 | (v >> 10));
                o.push_back('\\');
                o.push_back('u');
                hex4(o, 0xDC00 | (v & 0x3FF));
            }
        }
        o.push_back('"');
    }
    void digits(U32 &o, size_t n, bool first_nonzero) {
        for (size_t i = 0; i < n; i++) o.push_back((char32_t)('0' + (i == 0 && first_nonzero ? 1 + r.below(9) : r.below(10))));
    }
    void number(U32 &o) {
        uint64_t k = r.below(12);
        if (r.chance(1, 3)) o.push_back('-');
        if (k == 0) {
            o.push_back('0');
        } else if (k < 5) {
            digits(o, 1 + (size_t)r.below(18), true);
        } else if (k == 5) {
            const char *edge = r.chance(1, 2) ? "18446744073709551615" : "9223372036854775808";
            for (const char *p = edge; *p; p++) o.push_back((char32_t)*p);
        } else if (k < 9) {
            if (r.chance(1, 3))
                o.push_back('0');
            else
                digits(o, 1 + (size_t)r.below(8), true);
            o.push_back('.');
            digits(o, 1 + (size_t)r.below(9), false);
        } else {
            digits(o, 1 + (size_t)r.below(5), true);
            if (r.chance(1, 2)) {
                o.push_back('.');
                digits(o, 1 + (size_t)r.below(5), false);
            }
            o.push_back(r.chance(1, 2) ? 'e' : 'E');
            if (r.chance(2, 3)) o.push_back(r.chance(1, 2) ? '-' : '+');
            digits(o, 1 + (size_t)r.below(2), true);
        }
    }
    void value(U32 &o, int depth, bool container_only = false) {
        if (budget > 0) budget--;
        uint64_t k = container_only ? r.below(2) : r.below(10);
        if (depth <= 0 || budget == 0) k = container_only ? k : 2 + r.below(8);
        if (k == 0) {
            o.push_back('[');
            ws(o);
            size_t n = (size_t)r.below(6);
            for (size_t i = 0; i < n; i++) {
                if (i) {
                    o.push_back(',');
                    ws(o);
                }
                value(o, depth - 1);
                ws(o);
            }
            o.push_back(']');
        } else if (k == 1) {
            o.push_back('{');
            ws(o);
            size_t n = (size_t)r.below(6);
            U32    first_key;
            for (size_t i = 0; i < n; i++) {
                if (i) {
                    o.push_back(',');
                    ws(o);
                }
                if (i > 0 && !first_key.empty() && r.chance(1, 12)) {
                    o += first_key; // duplicate key
                } else {
                    size_t s = o.size();
                    string(o, r.chance(1, 20) ? 80 : 6);
                    if (i == 0) first_key = o.substr(s);
                }
                ws(o);
                o.push_back(':');
                ws(o);
                value(o, depth - 1);
                ws(o);
            }
            o.push_back('}');
        } else if (k < 5) {
            string(o, r.chance(1, 25) ? 120 : 10);
        } else if (k < 8) {
            number(o);
        } else {
            const char *kw = k == 8 ? (r.chance(1, 2) ? "true" : "false") : "null";
            for (const char *p = kw; *p; p++) o.push_back((char32_t)*p);
        }
    }
    // a container document without leading / trailing whitespace
    U32 document(int depth) {
        U32 o;
        value(o, depth, true);
        return o;
    }
};

inline U32 deep_document(qsim::Rng &r, size_t levels) {
    U32 o, close;
    int style = (int)r.below(4);
    for (size_t i = 0; i < levels; i++) {
        bool obj = style == 1 || (style >= 2 && r.chance(1, 2));
        if (obj) {
            o.push_back('{');
            o.push_back('"');
            size_t kl = style == 3 ? (size_t)r.below(40) : 1;
            for (size_t k = 0; k < kl; k++) o.push_back((char32_t)('a' + r.below(26)));
            o.push_back('"');
            o.push_back(':');
            close.push_back('}');
        } else {
            o.push_back('[');
            if (style >= 2 && r.chance(1, 3)) {
                o.push_back('1');
                o.push_back(',');
            }
            close.push_back(']');
        }
    }
    o.push_back('7');
    for (size_t i = close.size(); i > 0; i--) o.push_back(close[i - 1]);
    return o;
}

} // namespace qw

#endif
