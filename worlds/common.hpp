// Common prelude of every world translation unit (these are the ONLY TUs that include Qentem headers,
// and all of them are compiled with the flavour's full instrumentation flags — see DESIGN §3.9).
#ifndef QSIM_WORLDS_COMMON_HPP
#define QSIM_WORLDS_COMMON_HPP

#include <new>

#include <cstdint>
#include <cstdio>
#include <cstring>
#include <string>
#include <vector>

#include "../sim/rt.hpp"

// --- the repository's own accounting seam: Memory.hpp calls MemoryRecord::AddAllocation /
// RemoveAllocation when QENTEM_Q_TEST_H is defined. We define the macro and our own MemoryRecord
// (shadowing QTest.hpp, which is never included).
#ifndef QSIM_OPT
#define QENTEM_Q_TEST_H
extern "C" void qsim_memrec_add(void *);
extern "C" void qsim_memrec_remove(void *);
namespace Qentem {
struct MemoryRecord {
    inline static void AddAllocation(void *p) noexcept {
        qsim_memrec_add(p);
    }
    inline static void RemoveAllocation(void *p) noexcept {
        qsim_memrec_remove(p);
    }
};
} // namespace Qentem
#endif
// (optimiser twins compile the library exactly as a release build does: without the accounting seam, whose opaque
// calls would stand between the stores and loads the optimiser is otherwise free to reorder or drop)

#include "Array.hpp"
#include "HArray.hpp"
#include "HList.hpp"
#include "JSON.hpp"
#include "String.hpp"
#include "StringStream.hpp"
#include "StringView.hpp"
#include "Template.hpp"
#include "Value.hpp"

// Harness code below this point is not instrumented (LLVM will not inline instrumented library
// functions into it), so its own loads/stores never count as library accesses.
#if defined(__clang__) && !defined(QSIM_SAN)
#define QH_BEGIN _Pragma("clang attribute push(__attribute__((no_sanitize(\"thread\"))), apply_to = function)")
#define QH_END _Pragma("clang attribute pop")
#else
#define QH_BEGIN
#define QH_END
#endif

QH_BEGIN
namespace qw {

// A numeral whose exponent has eight or more digits makes the library's power-of-ten loop run for up to 1.6e8
// iterations (finite, seconds of CPU: `[1e4294967295]`) in a register-only loop: the step clock stands still while it
// runs. For texts containing one, a stalled step clock ends the run as abandoned instead of as a hang; the step budget
// stays hard, so a loop that does touch memory for ever is still reported. (Exponent range is C09, not claimed.)
inline bool has_long_exponent(const std::u32string &t) {
    for (size_t i = 0; i + 8 < t.size(); i++) {
        if (t[i] != 'e' && t[i] != 'E') continue;
        size_t k = i + 1;
        if (k < t.size() && (t[k] == '+' || t[k] == '-')) k++;
        size_t d = 0;
        while (k < t.size() && t[k] >= '0' && t[k] <= '9') k++, d++;
        if (d >= 8) return true;
    }
    return false;
}

inline void long_exponent_policy() {
    qsim::set_stall_abandon(true);
#ifdef QSIM_OPT
    // the optimiser twins have no step clock worth the name: only the wrapped memcpy / memset calls count, and clang -O3
    // turns the digit loop of powerOfPositiveTen into such calls (1.6e8 of them for `7e-99999999999999999999`)
    qsim::set_soft_budget(true);
#endif
}

// A caller's thin wrapper around one library call: a small optimisation unit of its own, as in user code. Inside the
// worlds' large interpreters the optimiser gives up early; in a unit this small it uses everything it may assume
// (the optimiser twins found GCC -O3 dropping stores made through another union member's type only here).
template <typename T, typename A>
__attribute__((noinline, flatten)) void assign_in_own_unit(T &target, A &&arg) {
    target = static_cast<A &&>(arg);
}
template <typename T, typename A>
__attribute__((noinline, flatten)) void append_in_own_unit(T &target, A &&arg) {
    target += static_cast<A &&>(arg);
}

using qsim::Op;
using qsim::Plan;
using qsim::Rng;

// code-unit strings are carried as vectors of 32-bit units in plans and models
using U32 = std::u32string;

inline std::string pack_units(const U32 &s) {
    std::string o;
    o.resize(s.size() * 4);
    for (size_t i = 0; i < s.size(); i++) {
        uint32_t v = (uint32_t)s[i];
        memcpy(&o[i * 4], &v, 4);
    }
    return o;
}
inline U32 unpack_units(const std::string &b) {
    U32 s;
    s.resize(b.size() / 4);
    for (size_t i = 0; i < s.size(); i++) {
        uint32_t v;
        memcpy(&v, &b[i * 4], 4);
        s[i] = (char32_t)v;
    }
    return s;
}
inline U32 ascii(const char *s) {
    U32 o;
    while (*s) o.push_back((char32_t)(unsigned char)*s++);
    return o;
}
inline std::string to_printable(const U32 &s) {
    std::string o;
    for (char32_t c : s) {
        if (c >= 0x20 && c < 0x7f && c != '\\')
            o.push_back((char)c);
        else {
            char b[16];
            snprintf(b, sizeof b, "\\x%x;", (unsigned)c);
            o += b;
        }
    }
    return o;
}

template <typename Char_T>
inline char32_t unit_mask() {
    return sizeof(Char_T) == 1 ? 0xFFu : sizeof(Char_T) == 2 ? 0xFFFFu : 0xFFFFFFFFu;
}

// An exact-size, non NUL-terminated (unless asked) copy of a unit string inside the arena.
template <typename Char_T>
struct ArenaText {
    Char_T *ptr{nullptr};
    size_t  len{0};
    ArenaText() = default;
    ArenaText(const U32 &s, bool nul_terminated = false) {
        set(s, nul_terminated);
    }
    ArenaText(const ArenaText &)            = delete;
    ArenaText &operator=(const ArenaText &) = delete;
    void set(const U32 &s, bool nul_terminated = false) {
        reset();
        len      = s.size();
        size_t n = len + (nul_terminated ? 1 : 0);
        ptr      = (Char_T *)qsim::alloc_block(n * sizeof(Char_T), qsim::BK_INPUT);
        for (size_t i = 0; i < len; i++) ptr[i] = (Char_T)s[i];
        if (nul_terminated) ptr[len] = Char_T{0};
    }
    void reset() {
        if (ptr) qsim::free_block(ptr);
        ptr = nullptr;
        len = 0;
    }
    ~ArenaText() {
        reset();
    }
};

// storage for a library object that lives in the arena (so that the monitor sees its header)
template <typename T>
struct ArenaObj {
    T *p{nullptr};
    ArenaObj() {
        p = (T *)qsim::alloc_block(sizeof(T), qsim::BK_OBJECT);
    }
    ArenaObj(const ArenaObj &)            = delete;
    ArenaObj &operator=(const ArenaObj &) = delete;
    ~ArenaObj() {
        if (p) qsim::free_block(p);
    }
    T *operator->() const {
        return p;
    }
    T &operator*() const {
        return *p;
    }
};

// checked observation read of a library buffer
template <typename Char_T>
inline bool read_units(const Char_T *p, size_t n, U32 &out, const char *what) {
    out.clear();
    if (n == 0) return true;
    if (p == nullptr || !qsim::readable(p, n * sizeof(Char_T))) {
        qsim::report("obs-oob", what, std::string("library reported a buffer it does not own: ") + what);
        return false;
    }
    out.resize(n);
    for (size_t i = 0; i < n; i++) out[i] = (char32_t)(typename std::make_unsigned<Char_T>::type)p[i];
    return true;
}

// heap / schedule knobs shared by all generators
inline void gen_heap_cfg(Plan &plan, Rng &r, bool force_quarantine = false) {
    plan.cfg["heap_place"] = force_quarantine ? 0 : (int64_t)(r.below(10) < 5 ? 0 : (r.below(2) ? 1 : 2));
    plan.cfg["heap_fill"]  = (int64_t)(r.below(10) < 6 ? 0 : (r.below(2) ? 1 : 2));
    plan.cfg["exact_fit"]  = (int64_t)(r.below(2));
}

} // namespace qw
QH_END

#endif
