// json_world (C05, C07, feeds C16): a document store whose texts reach JSON::Parse through a faulty channel
// (truncation, flipped units, lost / duplicated / swapped blocks, concatenation, stale tails, bracket damage) in
// exact-size, non NUL-terminated buffers under the simulated heap; deep documents on measured stacks; and the
// crash-consistency enumeration of C07 (every proper prefix, every closer replaced / removed, suffixes).
#include "common.hpp"
#include "channel.hpp"
#include "jsongen.hpp"
#include "valueread.hpp"

QH_BEGIN
namespace qw {
namespace jsonw {

using Qentem::SizeT;
using qsim::LibCall;

enum JOp { J_DOC = 0, J_FAULT, J_DELIVER, J_ENUM, J_DEEP, J_TINY, J_COUNT };
enum Mode { M_CLEAN = 0, M_FAULTED, M_ENUM, M_DEEP, M_TINY };

struct Ctx {
    int    width{1};
    size_t parses{0};
    size_t faults_fired{0};
    bool   failed{false};
    void   fail(const char *cls, const std::string &key, const std::string &detail) {
        qsim::report(cls, key, detail);
        failed = true;
    }
};

template <typename C>
struct JsonW {
    using VT  = Qentem::Value<C>;
    using Stm = Qentem::StringStream<C>;
    Ctx &cx;
    U32  doc;
    std::vector<Fault> pending;

    explicit JsonW(Ctx &c) : cx(c) {
    }

    // parse 'text' from an exact-size buffer; returns whether the result was Undefined. 'tree' receives the walk.
    bool parse(const U32 &text, int variant, const U32 &scratch, Node &tree, bool &walk_ok, std::string &err) {
        ArenaText<C> buf(text);
        ArenaObj<VT> res;
        cx.parses++;
        if (has_long_exponent(text)) {
            long_exponent_policy();
            qsim::probe("json.long-exponent");
        }
        if (variant == 1) {
            ArenaObj<Stm> stream;
            ArenaText<C>  pre(scratch);
            LibCall       lc;
            new (stream.p) Stm();
            stream->Write(pre.ptr, (SizeT)pre.len);
            new (res.p) VT(Qentem::JSON::Parse(*stream, (const C *)buf.ptr, (SizeT)buf.len));
            stream->~Stm();
        } else {
            LibCall lc;
            new (res.p) VT(Qentem::JSON::Parse((const C *)buf.ptr, (SizeT)buf.len));
        }
        bool undefined;
        {
            LibCall lc;
            undefined = res->IsUndefined();
        }
        walk_ok = true;
        if (!undefined) walk_ok = read_tree<C>(res.p, tree, err);
        {
            LibCall lc;
            res->~VT();
        }
        return undefined;
    }

    void deliver(const Op &op, int mode) {
        U32 text = doc;
        size_t fired = 0;
        for (auto &f : pending) {
            if (f.kind == F_COUNT) {
                // lexical near-miss: a number token replaced by a shape the grammar forbids (what a lenient writer or a
                // damaged digit run produces), optionally with the text cut right after it
                static const char *forms[] = {"0x", "0X", "-0x", "0x1F", "0Xg", "1e", "1e+", "1E-", "-", "+1", "01", "-01", ".5", "5.", "1.e3", "0.", "-.", "1e1.5", "0x", "00", "1..2", "0e", "--1", "1e999999999", "0xFFFFFFFFFFFFFFFFF"};
                std::vector<std::pair<size_t, size_t>> toks;
                bool in_str = false;
                for (size_t i = 0; i < text.size(); i++) {
                    char32_t c = text[i];
                    if (in_str) {
                        if (c == '\\') i++;
                        else if (c == '"') in_str = false;
                    } else if (c == '"') in_str = true;
                    else if (c == '-' || (c >= '0' && c <= '9')) {
                        size_t e = i;
                        while (e < text.size() && (text[e] == '-' || text[e] == '+' || text[e] == '.' || text[e] == 'e' || text[e] == 'E' || (text[e] >= '0' && text[e] <= '9'))) e++;
                        toks.emplace_back(i, e);
                        i = e - 1;
                    }
                }
                if (toks.empty()) continue;
                auto        tk   = toks[(size_t)(f.pos % toks.size())];
                const char *form = forms[(size_t)(f.arg % (sizeof(forms) / sizeof(forms[0])))];
                if (f.arg == 63 && (f.pos % 61) == 0) {
                    // very rarely (each costs seconds of legitimate work): an exponent of ten or more digits
                    static const char *longexp[] = {"1e1000000000", "-2.5E+12345678901", "7e-99999999999999999999", "3E4294967295"};
                    form = longexp[(size_t)((f.pos / 61) % 4)];
                    qsim::probe("json.fault.long-exponent");
                }
                U32         rep;
                for (const char *p = form; *p; p++) rep.push_back((char32_t)*p);
                text.replace(tk.first, tk.second - tk.first, rep);
                if (f.unit & 1) text.resize(tk.first + rep.size()); // torn right after the token
                fired++;
                cx.faults_fired++;
                qsim::probe("json.fault.number-near-miss");
                continue;
            }
            if (apply_fault(text, f)) {
                fired++;
                cx.faults_fired++;
                qsim::probe((std::string("json.fault.") + fault_name[f.kind % F_COUNT]).c_str());
            }
        }
        pending.clear();
        int         variant = (int)((uint64_t)op.a[0] % 2);
        U32         scratch = op.s.empty() ? U32() : unpack_units(op.s[0]);
        Node        tree;
        bool        walk_ok;
        std::string err;
        bool        undefined = parse(text, variant, scratch, tree, walk_ok, err);
        qsim::obs((uint64_t)undefined * 7 + text.size() * 31);
        if (!walk_ok) {
            cx.fail("malformed-result", "json:walk", "parse returned a tree that cannot be walked: " + err);
            return;
        }
        if (mode == M_CLEAN && fired == 0 && variant == 0) {
            // un-faulted delivery of a valid document: must be accepted and have the document's shape
            StrictJSON sj(text, cx.width);
            Node       want;
            if (!sj.document(want)) return; // generator slip: not a valid document, nothing to demand
            if (undefined) {
                cx.fail("rejected-valid", "json:clean", "a valid RFC 8259 document was rejected: " + to_printable(text).substr(0, 160));
                return;
            }
            std::string why;
            if (!shape_equal(want, tree, why)) cx.fail("wrong-shape", "json:clean", "parsed tree has a different shape: " + why + " for " + to_printable(text).substr(0, 160));
        }
    }

    void expect_rejected(const U32 &text, const char *kind, const std::string &where) {
        Node        tree;
        bool        walk_ok;
        std::string err;
        bool        undefined = parse(text, 0, U32(), tree, walk_ok, err);
        if (!undefined) {
            cx.fail("accepted-damaged", std::string("json:") + kind,
                    std::string("text that is not exactly one value was accepted (") + kind + " " + where + "): " + to_printable(text).substr(0, 200));
        }
    }

    void enumerate(const Op &op) {
        // D must itself be accepted, otherwise the faults test nothing
        StrictJSON sj(doc, cx.width);
        Node       want;
        if (doc.empty() || !sj.document(want) || !want.is_container()) return;
        {
            Node        tree;
            bool        walk_ok;
            std::string err, why;
            static const char32_t wsu[] = {' ', '\n', '\t', '\r'};
            U32         padded;
            padded.push_back(wsu[(uint64_t)op.a[1] % 4]);
            padded += doc;
            padded.push_back(wsu[(uint64_t)op.a[2] % 4]);
            padded.push_back(wsu[(uint64_t)op.a[3] % 4]);
            for (const U32 *t : {(const U32 *)&doc, (const U32 *)&padded}) {
                bool undefined = parse(*t, 0, U32(), tree, walk_ok, err);
                if (undefined || !walk_ok) {
                    cx.fail("rejected-valid", "json:enum-control", "the undamaged document was rejected: " + to_printable(*t).substr(0, 160));
                    return;
                }
                if (!shape_equal(want, tree, why)) {
                    cx.fail("wrong-shape", "json:enum-control", "undamaged document parsed to a different shape: " + why);
                    return;
                }
            }
        }
        size_t n = doc.size();
        // every proper prefix (every torn-write / short-read cut point). For the long chain documents (hundreds or
        // thousands of nested containers) every cut inside and just before the run of closers at the end, and every
        // 16th elsewhere: a parse is linear in the text, all cuts would be quadratic.
        size_t run_start = n, long_doc = n > 1500;
        if (long_doc) {
            size_t t = 0;
            while (t < n && (doc[n - 1 - t] == ']' || doc[n - 1 - t] == '}')) t++;
            run_start = n - t;
        }
        size_t cuts = 0;
        for (size_t k = 0; k < n && !cx.failed; k++) {
            // dense around the innermost value / the first closers and over the last closers, every 16th cut elsewhere
            bool dense = !long_doc || (k + 24 >= run_start && k < run_start + 64) || k + 64 >= n;
            if (!dense && (k % 16) != 0) continue;
            expect_rejected(doc.substr(0, k), "prefix", "cut at " + std::to_string(k) + " of " + std::to_string(n));
            cuts++;
        }
        qsim::probe("json.enum.prefixes", cuts);
        // every closing bracket replaced by the other kind / removed
        std::vector<size_t> cl = closer_positions(doc);
        if (cl.size() > 96) {
            // chain document: the first 16, the last 48 and 32 spread over the rest
            std::vector<size_t> pick(cl.begin(), cl.begin() + 16);
            size_t              mid = cl.size() - 64;
            for (size_t i = 0; i < 32; i++) pick.push_back(cl[16 + (i * mid) / 32]);
            pick.insert(pick.end(), cl.end() - 48, cl.end());
            cl = pick;
        }
        for (size_t i = 0; i < cl.size() && !cx.failed; i++) {
            U32 t = doc;
            t[cl[i]] = (t[cl[i]] == '}') ? ']' : '}';
            expect_rejected(t, "closer-replaced", "at " + std::to_string(cl[i]));
            t = doc;
            t.erase(cl[i], 1);
            if (!cx.failed) expect_rejected(t, "closer-removed", "at " + std::to_string(cl[i]));
        }
        qsim::probe("json.enum.closers", cl.size() * 2);
        // D followed by a non-whitespace suffix
        static const char sufx[] = "{}[]\",:0123456789-+.eEtfnuabxz\\/'#";
        for (size_t i = 0; i + 1 < sizeof(sufx) && !cx.failed; i++) {
            U32 t = doc;
            t.push_back((char32_t)sufx[i]);
            expect_rejected(t, "suffix", std::string("'") + sufx[i] + "'");
            if (cx.failed) break;
            U32 t2 = doc;
            t2.push_back((char32_t)" \n\t\r"[i % 4]);
            t2.push_back((char32_t)sufx[i]);
            expect_rejected(t2, "ws-suffix", std::string("'") + sufx[i] + "'");
        }
        if (!cx.failed) {
            U32 t = doc;
            t.push_back(0);
            expect_rejected(t, "suffix", "NUL");
        }
        if (!cx.failed) {
            U32 t = doc;
            t.push_back((char32_t)(0xA0 & unit_mask<C>()));
            expect_rejected(t, "suffix", "0xA0");
        }
        // units that merely LOOK like whitespace to a careless test (low byte 0x20/0x09/0x0A/0x0D, Unicode spaces):
        // as a suffix and between tokens they make the text something other than one value
        if (!cx.failed) {
            static const uint32_t lookalikes[] = {0x0B, 0x0C, 0x1F, 0x85, 0xA0, 0x0120, 0x0109, 0x010A, 0x010D, 0x2009, 0x200A, 0x2020, 0x2028,
                                                  0x3000, 0x4E0A, 0xFEFF, 0xFF20, 0x10020, 0x1F60D, 0x10109, 0x80000020u};
            std::vector<size_t> seps; // positions right after a structural separator (outside strings)
            {
                bool in_str = false;
                for (size_t i = 0; i < n; i++) {
                    char32_t c = doc[i];
                    if (in_str) {
                        if (c == '\\') i++;
                        else if (c == '"') in_str = false;
                    } else if (c == '"') in_str = true;
                    else if (c == ',' || c == ':' || c == '[' || c == '{') seps.push_back(i + 1);
                }
            }
            for (size_t k = 0; k < sizeof(lookalikes) / sizeof(lookalikes[0]) && !cx.failed; k++) {
                char32_t u = (char32_t)(lookalikes[k] & unit_mask<C>());
                if (u == ' ' || u == '\t' || u == '\n' || u == '\r') continue; // became real whitespace in this width
                U32 t = doc;
                t.push_back(u);
                expect_rejected(t, "suffix", "whitespace look-alike " + std::to_string((unsigned)u));
                if (!cx.failed && !seps.empty()) {
                    U32 t2 = doc;
                    t2.insert(t2.begin() + (long)seps[((size_t)op.a[1] + k) % seps.size()], u);
                    expect_rejected(t2, "inserted", "whitespace look-alike " + std::to_string((unsigned)u) + " between tokens");
                }
            }
        }
        // the same damage behind leading whitespace (offsets and remaining lengths differ by the padding)
        if (!cx.failed) {
            U32 lead;
            size_t k = 1 + (size_t)((uint64_t)op.a[2] % 9);
            for (size_t i = 0; i < k; i++) lead.push_back((char32_t)" \n\t\r"[((uint64_t)op.a[3] + i) % 4]);
            U32 ld = lead + doc;
            static const char sfx[] = "x]},:0\"e[{";
            for (size_t i = 0; i + 1 < sizeof(sfx) && !cx.failed; i++) {
                U32 t = ld;
                t.push_back((char32_t)sfx[i]);
                expect_rejected(t, "lead-ws-suffix", std::string("'") + sfx[i] + "' after " + std::to_string(k) + " leading whitespace units");
                if (cx.failed) break;
                U32 t2 = ld;
                t2.push_back(' ');
                t2.push_back((char32_t)sfx[i]);
                expect_rejected(t2, "lead-ws-suffix", std::string("' ") + sfx[i] + "'");
            }
            if (!cx.failed) expect_rejected(ld + doc, "lead-ws-concat", "ws ++ D ++ D");
            if (!cx.failed) expect_rejected(ld + U32(1, (char32_t)',') + doc, "lead-ws-concat", "ws ++ D ++ ',' ++ D");
            // a sample of cut points of the padded text (all of them for short documents)
            size_t step = n > 200 ? n / 100 : 1;
            for (size_t c = 0; c < ld.size() && !cx.failed; c += step) expect_rejected(ld.substr(0, c), "lead-ws-prefix", "cut at " + std::to_string(c));
        }
        // duplicated write / stale tail of an older longer document
        if (!cx.failed) expect_rejected(doc + doc, "concat", "D ++ D");
        if (!cx.failed && !op.s.empty()) {
            U32 other = unpack_units(op.s[0]);
            if (other.size() > n) {
                U32 tail = other.substr(n);
                bool all_ws = true;
                for (char32_t c : tail)
                    if (c != ' ' && c != '\n' && c != '\t' && c != '\r') all_ws = false;
                if (!all_ws) expect_rejected(doc + tail, "stale-tail", "D ++ tail(old)");
            }
        }
        qsim::probe("json.enum.documents");
    }

    void deep(const Op &op) {
        U32         text = op.s.empty() ? U32() : unpack_units(op.s[0]);
        Node        tree;
        bool        walk_ok;
        std::string err;
        bool        undefined = parse(text, 0, U32(), tree, walk_ok, err);
        size_t      levels    = (size_t)op.a[0];
        if (undefined || !walk_ok) {
            cx.fail("rejected-valid", "json:deep", "a valid document nested " + std::to_string(levels) + " levels deep was not parsed to a complete value");
            return;
        }
        if (tree.depth() != levels + 1) cx.fail("wrong-shape", "json:deep", "deep document parsed to depth " + std::to_string(tree.depth()) + ", expected " + std::to_string(levels + 1));
        qsim::probe("json.deep.documents");
        if (levels >= 512) qsim::probe("json.deep.512-levels-parsed");
    }

    // very short reads: every text of 1..3 units over an alphabet of structural / numeric / keyword / encoding-mark
    // units whose first unit is fixed by the run (the runs together cover all of them), plus 4-unit samples
    void tiny(const Op &op) {
        static const uint32_t alpha[] = {'{', '}', '[', ']', '"', ':', ',', '\\', '/', ' ', '\t', '\n', '\r', '0', '1', '9', '-', '+', '.', 'e', 'E',
                                         'x', 'X', 't', 'r', 'u', 'f', 'a', 'l', 's', 'n', 'b', 'U', 'D', '8', 0x00, 0x1F, 0x7F, 0x80, 0xBB, 0xBF,
                                         0xEF, 0xFE, 0xFF, 0xFEFF, 0xFFFE, 0xD800, 0xDC00};
        const size_t   na    = sizeof(alpha) / sizeof(alpha[0]);
        size_t         first = (size_t)((uint64_t)op.a[0] % na);
        auto run = [&](const U32 &t) {
            Node        tree;
            bool        walk_ok;
            std::string err;
            U32         m = t;
            for (auto &c : m) c &= unit_mask<C>();
            bool undefined = parse(m, (int)((uint64_t)op.a[1] % 2), ascii("s"), tree, walk_ok, err);
            if (!walk_ok) cx.fail("malformed-result", "json:walk", "parse returned a tree that cannot be walked: " + err);
            qsim::obs((uint64_t)undefined + m.size() * 3);
        };
        U32 t;
        t.push_back(alpha[first]);
        run(t);
        for (size_t b = 0; b < na && !cx.failed; b++) {
            U32 t2 = t;
            t2.push_back(alpha[b]);
            run(t2);
            for (size_t c = 0; c < na && !cx.failed; c++) {
                U32 t3 = t2;
                t3.push_back(alpha[c]);
                run(t3);
            }
            U32 t4 = t2;
            t4.push_back(alpha[((uint64_t)op.a[2] + b) % na]);
            t4.push_back(alpha[((uint64_t)op.a[3] + b * 7) % na]);
            if (!cx.failed) run(t4);
        }
        qsim::probe("json.tiny.first-units");
    }

    void exec(const Op &op, int mode) {
        switch ((uint64_t)op.kind % J_COUNT) {
            case J_DOC:
                doc = op.s.empty() ? U32() : unpack_units(op.s[0]);
                for (auto &c : doc) c &= unit_mask<C>();
                pending.clear();
                break;
            case J_FAULT: {
                Fault f;
                f.kind = (int)((uint64_t)op.a[0] % (F_COUNT + 1));
                f.pos  = (uint64_t)op.a[1];
                f.arg  = (uint64_t)op.a[2];
                f.unit = (uint32_t)op.a[3] & unit_mask<C>();
                if (!op.s.empty()) f.other = unpack_units(op.s[0]);
                for (auto &c : f.other) c &= unit_mask<C>();
                pending.push_back(f);
                break;
            }
            case J_DELIVER: deliver(op, mode); break;
            case J_ENUM: enumerate(op); break;
            case J_DEEP: deep(op); break;
            case J_TINY: tiny(op); break;
        }
    }
};

// ------------------------------------------------------------------------------------------------
// generation
// ------------------------------------------------------------------------------------------------
static std::vector<size_t> boundaries(const U32 &t) {
    // syntactic boundaries: after a colon / comma / bracket / quote / backslash, inside \u escapes, inside numbers
    std::vector<size_t> b;
    for (size_t i = 0; i < t.size(); i++) {
        char32_t c = t[i];
        if (c == ':' || c == ',' || c == '[' || c == '{' || c == '"' || c == '\\' || c == 'u' || c == '.' || c == 'e' || c == 'E' || c == '-') {
            b.push_back(i);
            b.push_back(i + 1);
        }
    }
    return b;
}

static void gen_fault(Plan &plan, Rng &r, const U32 &doc, int width, const U32 &other) {
    Op op;
    op.kind = J_FAULT;
    static const int kinds[] = {F_TRUNCATE, F_TRUNCATE, F_FLIP, F_FLIP, F_FLIP, F_DROP, F_DUP, F_SWAP, F_CONCAT, F_STALE_TAIL, F_REPLACE_CLOSER, F_REMOVE_CLOSER, F_INSERT, F_INSERT, F_COUNT, F_COUNT};
    op.a[0] = kinds[r.below(sizeof(kinds) / sizeof(int))];
    std::vector<size_t> b = boundaries(doc);
    if (!b.empty() && r.chance(1, 2))
        op.a[1] = (int64_t)b[r.below(b.size())];
    else
        op.a[1] = (int64_t)r.below(doc.size() + 1);
    op.a[2] = (int64_t)r.below(64);
    op.a[3] = (int64_t)fault_unit(r, width);
    op.s.push_back(pack_units(other));
    plan.ops.push_back(op);
    // a torn write often ends right where the damage is: cut the text just after a flipped / inserted unit
    if ((op.a[0] == F_FLIP || op.a[0] == F_INSERT) && r.chance(1, 3)) {
        Op cut;
        cut.kind = J_FAULT;
        cut.a[0] = F_TRUNCATE;
        cut.a[1] = op.a[1] + 1 + (int64_t)r.below(2);
        cut.s.push_back(pack_units(U32()));
        plan.ops.push_back(cut);
    }
}

static void generate_mix(Plan &plan, uint64_t seed, int tier, bool enum_only) {
    Rng cfg(qsim::derive(seed, "cfg")), ops(qsim::derive(seed, "ops")), flt(qsim::derive(seed, "faults"));
    gen_heap_cfg(plan, cfg);
    static const int widths[] = {1, 2, 4, 8};
    plan.cfg["width"] = widths[cfg.below(4)];
    int width         = (int)plan.cfg["width"] == 8 ? 4 : (int)plan.cfg["width"];
    int mode;
    if (enum_only)
        mode = M_ENUM;
    else {
        uint64_t k = cfg.below(40);
        mode       = k < 8 ? M_CLEAN : k < 36 ? M_FAULTED : k < 38 ? M_DEEP : M_TINY;
    }
    plan.cfg["mode"]    = mode;
    plan.cfg["faulted"] = mode == M_FAULTED;
    if (mode == M_TINY) {
        Op op;
        op.kind = J_TINY;
        op.a[0] = plan.get("run_index", 0) / 40 + (int64_t)cfg.below(48); // all first units come round
        op.a[1] = (int64_t)cfg.below(2);
        op.a[2] = (int64_t)cfg.below(48);
        op.a[3] = (int64_t)cfg.below(48);
        plan.cfg["stack_kb"] = 256;
        plan.ops.push_back(op);
        return;
    }
    if (mode == M_DEEP) {
        Op op;
        op.kind = J_DEEP;
        op.a[0] = cfg.chance(3, 4) ? 512 : (int64_t)(1 + cfg.below(512)); // the statement promises 512 levels, not more
        op.s.push_back(pack_units(deep_document(ops, (size_t)op.a[0])));
        plan.cfg["stack_kb"] = 8192;
        plan.ops.push_back(op);
        return;
    }
    plan.cfg["stack_kb"] = (int64_t)(256 << cfg.below(3));
    size_t ndocs         = mode == M_ENUM ? 1 : 1 + (size_t)cfg.below(3);
    for (size_t d = 0; d < ndocs; d++) {
        size_t  nodes = mode == M_ENUM ? (tier ? 60 : 25) : 4 + (size_t)cfg.below(tier ? 120 : 50);
        JsonGen g(ops, width, nodes);
        U32     doc = g.document(1 + (int)cfg.below(5));
        size_t  cap = mode == M_ENUM ? (tier ? 4000 : 900) : 8192;
        if (doc.size() > cap) {
            JsonGen g2(ops, width, 6);
            doc = g2.document(2);
        }
        if (mode == M_ENUM && cfg.chance(1, 250)) {
            // a chain of nested containers whose depth sits at a power of two or next to it: where a counter, a depth
            // guard or a scratch array of the parser would wrap or trip (the recursion itself fits an 8 MiB stack
            // several times over at these depths)
            static const int depths[] = {15, 16, 17, 31, 32, 33, 63, 64, 65, 127, 128, 129, 255, 256, 257, 511, 512, 513, 1023, 1024, 1025, 1026};
            doc = deep_document(ops, (size_t)depths[cfg.below(sizeof(depths) / sizeof(depths[0]))]);
            plan.cfg["stack_kb"] = 8192;
            qsim::probe("json.enum.chain-documents");
        }
        JsonGen go(ops, width, 12);
        U32     other = go.document(3);
        Op      dop;
        dop.kind = J_DOC;
        dop.s.push_back(pack_units(doc));
        plan.ops.push_back(dop);
        if (mode == M_ENUM) {
            Op e;
            e.kind = J_ENUM;
            e.a[1] = (int64_t)ops.below(4);
            e.a[2] = (int64_t)ops.below(4);
            e.a[3] = (int64_t)ops.below(4);
            U32 longer = doc;
            longer.insert(longer.size() / 2, other); // an older, longer text whose tail stays behind
            e.s.push_back(pack_units(longer));
            plan.ops.push_back(e);
            continue;
        }
        size_t deliveries = 1 + (size_t)cfg.below(4);
        for (size_t k = 0; k < deliveries; k++) {
            if (mode == M_FAULTED) {
                size_t nf = 1;
                if (flt.chance(1, 3)) nf = 2 + (size_t)flt.below(3);
                for (size_t f = 0; f < nf; f++) gen_fault(plan, flt, doc, width, other);
            }
            Op del;
            del.kind = J_DELIVER;
            del.a[0] = (int64_t)(ops.chance(1, 5) ? 1 : 0);
            del.s.push_back(pack_units(ascii("scratch")));
            plan.ops.push_back(del);
        }
    }
}

static void generate(Plan &plan, uint64_t seed, int tier) {
    generate_mix(plan, seed, tier, false);
}
static void generate_enum(Plan &plan, uint64_t seed, int tier) {
    generate_mix(plan, seed, tier, true);
}

template <typename C>
static void drive(Plan &plan, Ctx &cx) {
    JsonW<C> w(cx);
    int      mode = (int)plan.get("mode", 0);
    for (auto &op : plan.ops) {
        if (cx.failed || qsim::run_aborted()) break;
        w.exec(op, mode);
    }
}

static bool execute(Plan &plan) {
    Ctx cx;
    int w    = (int)plan.get("width", 1);
    cx.width = w == 8 ? 4 : w;
    size_t stack = (size_t)plan.get("stack_kb", 1024) * 1024;
    qsim::run_single(
        [&]() {
            if (w == 1)
                drive<char>(plan, cx);
            else if (w == 2)
                drive<char16_t>(plan, cx);
            else if (w == 4)
                drive<char32_t>(plan, cx);
            else
                drive<wchar_t>(plan, cx);
            if (!qsim::run_aborted()) qsim::check_leaks("json");
        },
        stack);
    // the task stack is a simulator resource: a 512-level document has to fit the default 8 MiB of a Linux thread
    if (plan.get("mode", 0) == M_DEEP && !qsim::run_aborted()) {
        qsim::probe("json.deep.stack-hwm-bytes", qsim::stack_hwm());
        if (qsim::stack_hwm() > stack)
            qsim::report("stack", "json:deep", "parsing a deeply nested document used " + std::to_string(qsim::stack_hwm()) + " bytes of stack, more than the " +
                                                   std::to_string(stack) + " bytes a default thread has");
    }
    return cx.faults_fired > 0 || cx.parses >= 5;
}

static const char *props(const std::string &cls) {
    if (cls == "leak") return "C16";
    if (cls == "accepted-damaged") return "C07";
    if (cls == "rejected-valid" || cls == "wrong-shape") return "C05,C07";
    if (cls == "uaf-read" || cls == "uaf-write" || cls == "double-free" || cls == "bad-free") return "C05,C16";
    return "C05";
}

static const qsim::World world      = {"json", generate, execute, props};
static const qsim::World world_enum = {"jsonenum", generate_enum, execute, props};
QSIM_REGISTER_WORLD(world)
QSIM_REGISTER_WORLD(world_enum)

} // namespace jsonw
} // namespace qw
QH_END
