// Text channels: the simulated store / transport that hands template and JSON texts to the library, possibly
// damaged (DESIGN §3.6). Faults are plan operations attached to the text they damage. Plain C++.
#ifndef QSIM_CHANNEL_HPP
#define QSIM_CHANNEL_HPP

#include "../sim/rt.hpp"

#include <string>
#include <vector>

namespace qw {

using U32 = std::u32string;

enum FaultKind {
    F_TRUNCATE = 0,   // EOF / short read / torn write persisted a prefix only
    F_FLIP,           // one stored unit replaced
    F_DROP,           // lost block
    F_DUP,            // duplicated block
    F_SWAP,           // two adjacent blocks reordered
    F_CONCAT,         // two messages delivered as one
    F_STALE_TAIL,     // shorter text written over a longer one without truncating: D ++ tail(old)
    F_REPLACE_CLOSER, // a closing bracket replaced by the other kind
    F_REMOVE_CLOSER,  // a closing bracket removed
    F_INSERT,         // a stray unit inserted
    F_COUNT
};
static const char *fault_name[] = {"truncate", "flip", "drop", "dup", "swap", "concat", "stale-tail", "replace-closer", "remove-closer", "insert"};

struct Fault {
    int      kind{0};
    uint64_t pos{0};
    uint64_t arg{0};
    uint32_t unit{0};
    U32      other;
};

// positions of structural closers of a JSON-like text (outside strings)
inline std::vector<size_t> closer_positions(const U32 &t) {
    std::vector<size_t> out;
    bool                in_str = false;
    for (size_t i = 0; i < t.size(); i++) {
        char32_t c = t[i];
        if (in_str) {
            if (c == '\\')
                i++;
            else if (c == '"')
                in_str = false;
        } else if (c == '"')
            in_str = true;
        else if (c == '}' || c == ']')
            out.push_back(i);
    }
    return out;
}

// returns true if the fault changed anything ("fired")
inline bool apply_fault(U32 &t, const Fault &f) {
    const size_t n = t.size();
    switch (f.kind) {
        case F_TRUNCATE: {
            if (n == 0) return false;
            size_t at = (size_t)(f.pos % n); // a proper prefix
            t.resize(at);
            return true;
        }
        case F_FLIP: {
            if (n == 0) return false;
            size_t at = (size_t)(f.pos % n);
            if (t[at] == (char32_t)f.unit) return false;
            t[at] = (char32_t)f.unit;
            return true;
        }
        case F_DROP: {
            if (n == 0) return false;
            size_t at  = (size_t)(f.pos % n);
            size_t len = 1 + (size_t)(f.arg % 48);
            if (at + len > n) len = n - at;
            t.erase(at, len);
            return true;
        }
        case F_DUP: {
            if (n == 0) return false;
            size_t at  = (size_t)(f.pos % n);
            size_t len = 1 + (size_t)(f.arg % 48);
            if (at + len > n) len = n - at;
            t.insert(at + len, t.substr(at, len));
            return true;
        }
        case F_SWAP: {
            if (n < 2) return false;
            size_t len = 1 + (size_t)(f.arg % 32);
            if (2 * len > n) len = n / 2;
            size_t at = (size_t)(f.pos % (n - 2 * len + 1));
            U32    a = t.substr(at, len), b = t.substr(at + len, len);
            if (a == b) return false;
            t.replace(at, len, b);
            t.replace(at + len, len, a);
            return true;
        }
        case F_CONCAT: {
            if (f.other.empty()) return false;
            t += f.other;
            return true;
        }
        case F_STALE_TAIL: {
            if (f.other.size() <= n) return false;
            t += f.other.substr(n);
            return true;
        }
        case F_REPLACE_CLOSER:
        case F_REMOVE_CLOSER: {
            std::vector<size_t> cl = closer_positions(t);
            if (cl.empty()) return false;
            size_t at = cl[(size_t)(f.pos % cl.size())];
            if (f.kind == F_REMOVE_CLOSER)
                t.erase(at, 1);
            else
                t[at] = (t[at] == '}') ? ']' : '}';
            return true;
        }
        case F_INSERT: {
            size_t at = (size_t)(f.pos % (n + 1));
            t.insert(t.begin() + (long)at, (char32_t)f.unit);
            return true;
        }
        default: return false;
    }
}

// units a flipped / inserted byte is drawn from: biased to structural characters of both grammars
inline uint32_t fault_unit(qsim::Rng &r, int width) {
    static const char structural[] = "{}<>[]\"':,/\\= 0159-+.eEtfnu#&;lifvsmxXabAF";
    uint64_t          k            = r.below(10);
    uint32_t          mask         = width == 1 ? 0xFFu : width == 2 ? 0xFFFFu : 0xFFFFFFFFu;
    if (k < 7) return (uint32_t)structural[r.below(sizeof(structural) - 1)];
    if (k == 7) return 0;
    if (k == 8) return (uint32_t)(r.below(0x20));
    return (uint32_t)(r.next() & mask);
}

} // namespace qw

#endif
