// seq_world (C14, feeds C16): Array<T>, String, StringStream, StringView and the byte-copy / zero-fill
// primitives driven by seeded operation histories under the simulated heap, compared step by step with
// plain sequence models (std::vector / std::u32string).
#include "common.hpp"

#include <algorithm>

// (one definition per binary: see sim/rt_main.cpp)
extern "C" uint64_t qsim_step_scale() {
    return Qentem::Config::IsSIMDEnabled ? 1 : 16;
}

QH_BEGIN
namespace qw {
namespace seq {

using Qentem::SizeT;
using qsim::LibCall;

enum SubWorld { SW_ARR_SIZET = 0, SW_ARR_POD, SW_ARR_STR, SW_ARR_ARR, SW_STRING, SW_STREAM, SW_VIEW, SW_MEM, SW_ARR_NODE, SW_COUNT };
static const char *sw_name[] = {"arr-sizet", "arr-pod", "arr-str", "arr-arr", "string", "stream", "view", "mem", "arr-node"};

struct Ctx {
    const char *sub{""};
    const char *opname{""};
    bool        failed{false};
    void fail(const char *obs, const std::string &detail) {
        if (!failed) qsim::report("model", std::string("seq:") + sub + ":" + opname + ":" + obs, detail);
        failed = true;
    }
};

// ------------------------------------------------------------------------------------------------
// element traits for Array<T>
// ------------------------------------------------------------------------------------------------
struct Pod24 {
    uint64_t a, b, c;
};

template <typename T>
struct Elem;

template <>
struct Elem<SizeT> {
    static SizeT make(int64_t t) {
        return (SizeT)t;
    }
    static bool eq(const SizeT &v, int64_t t) {
        return v == (SizeT)t;
    }
};
template <>
struct Elem<Pod24> {
    static Pod24 make(int64_t t) {
        return Pod24{(uint64_t)t, (uint64_t)t * 3, t ? ~(uint64_t)t : 0};
    }
    static bool eq(const Pod24 &v, int64_t t) {
        Pod24 e = make(t);
        return v.a == e.a && v.b == e.b && v.c == e.c;
    }
};
static std::string tok_text(int64_t t) {
    std::string s;
    if (t == 0) return s;
    size_t n = (size_t)(t % 37) + 1;
    for (size_t i = 0; i < n; i++) s.push_back((char)('a' + (t + (int64_t)i * 7) % 26));
    return s;
}
template <>
struct Elem<Qentem::String<char>> {
    static Qentem::String<char> make(int64_t t) {
        if (t == 0) return Qentem::String<char>{};
        // no harness heap use here: this runs inside a library bracket
        char   buf[48];
        size_t n = (size_t)(t % 37) + 1;
        for (size_t i = 0; i < n; i++) buf[i] = (char)('a' + (t + (int64_t)i * 7) % 26);
        return Qentem::String<char>{(const char *)buf, (SizeT)n};
    }
    static bool eq(const Qentem::String<char> &v, int64_t t) {
        std::string s = tok_text(t);
        if (v.Length() != s.size()) return false;
        if (s.empty()) return v.First() == nullptr || (qsim::readable(v.First(), 1) && v.First()[0] == 0);
        if (!qsim::readable(v.First(), s.size() + 1)) return false;
        return memcmp(v.First(), s.data(), s.size()) == 0 && v.First()[s.size()] == 0;
    }
};
template <>
struct Elem<Qentem::Array<SizeT>> {
    static Qentem::Array<SizeT> make(int64_t t) {
        Qentem::Array<SizeT> a;
        for (int64_t i = 0; i < t % 5; i++) a += (SizeT)(t + i);
        return a;
    }
    static bool eq(const Qentem::Array<SizeT> &v, int64_t t) {
        size_t n = (size_t)(t % 5);
        if (v.Size() != n) return false;
        if (n == 0) return true;
        if (!qsim::readable(v.First(), n * sizeof(SizeT))) return false;
        for (size_t i = 0; i < n; i++)
            if (v.First()[i] != (SizeT)(t + (int64_t)i)) return false;
        return true;
    }
};

// ------------------------------------------------------------------------------------------------
// Array<T>
// ------------------------------------------------------------------------------------------------
enum ArrOp {
    A_REINIT = 0, A_CTOR_SIZE, A_COPY_CTOR, A_MOVE_CTOR, A_COPY_ASSIGN, A_MOVE_ASSIGN, A_ADD_ITEM_C, A_ADD_ITEM_M,
    A_INSERT_ITEM_C, A_INSERT_ITEM_M, A_ADD_ARR_C, A_ADD_ARR_M, A_INSERT_ARR_C, A_INSERT_ARR_M, A_CLEAR, A_RESET,
    A_DETACH, A_RESERVE, A_RESIZE, A_RESIZE_INIT, A_EXPECT, A_COMPRESS, A_DROP, A_SWAP, A_SET_ELEM, A_COUNT
};
static const char *arr_op_name[] = {"reinit", "ctor-size", "copy-ctor", "move-ctor", "copy-assign", "move-assign",
                                    "add-item-copy", "add-item-move", "insert-item-copy", "insert-item-move",
                                    "add-array-copy", "add-array-move", "insert-array-copy", "insert-array-move",
                                    "clear", "reset", "detach", "reserve", "resize", "resize-init", "expect",
                                    "compress", "drop", "swap", "set-elem"};

template <typename T>
struct ArrW {
    using Arr              = Qentem::Array<T>;
    static constexpr int K = 3;
    ArenaObj<Arr>        obj[K];
    std::vector<int64_t> model[K];
    Ctx                 &cx;

    explicit ArrW(Ctx &c) : cx(c) {
        LibCall lc;
        for (int i = 0; i < K; i++) new (obj[i].p) Arr();
    }
    void teardown() {
        LibCall lc;
        for (int i = 0; i < K; i++) obj[i]->~Arr();
    }

    void check() {
        for (int i = 0; i < K && !cx.failed; i++) {
            const Arr &a   = *obj[i];
            size_t     sz  = a.Size();
            size_t     cap = a.Capacity();
            char       who[16];
            snprintf(who, sizeof who, "obj%d", i);
            if (sz != model[i].size()) {
                cx.fail("size", std::string(who) + ": Size()=" + std::to_string(sz) + " model=" + std::to_string(model[i].size()));
                return;
            }
            if (cap < sz) {
                cx.fail("capacity", "Capacity() < Size()");
                return;
            }
            if (a.First() != a.Storage() || a.End() != a.First() + sz || a.IsEmpty() != (sz == 0) ||
                a.IsNotEmpty() != (sz != 0) || a.Last() != (sz ? a.Storage() + (sz - 1) : nullptr)) {
                cx.fail("accessors", "First/End/Last/IsEmpty disagree with Size/Storage");
                return;
            }
            if (cap != 0 && !qsim::readable(a.Storage(), cap * sizeof(T))) {
                cx.fail("storage", "Storage() is not a live block of Capacity() elements");
                return;
            }
            for (size_t k = 0; k < sz; k++) {
                if (!Elem<T>::eq(a.Storage()[k], model[i][k])) {
                    cx.fail("element", std::string(who) + ": element " + std::to_string(k) + " of " + std::to_string(sz) +
                                           " differs from the model");
                    return;
                }
            }
            qsim::obs(sz * 1000003ULL + (uint64_t)i);
            for (size_t k = 0; k < sz; k++) qsim::obs((uint64_t)model[i][k]);
        }
    }

    void exec(const Op &op) {
        int       j   = (int)((uint64_t)op.a[0] % K);
        int       k   = (int)((uint64_t)op.a[1] % K);
        int64_t   tok = op.a[3] & 0xFFFF;
        size_t    n   = (size_t)((uint64_t)op.a[2] % 24);
        int       kind = (int)((uint64_t)op.kind % A_COUNT);
        cx.opname      = arr_op_name[kind];
        Arr &a = *obj[j];
        auto &m = model[j];
        switch (kind) {
            case A_REINIT: {
                LibCall lc;
                a.~Arr();
                new (&a) Arr();
                m.clear();
                break;
            }
            case A_CTOR_SIZE: {
                bool init = (op.a[3] & 1) != 0;
                {
                    LibCall lc;
                    a.~Arr();
                    new (&a) Arr((SizeT)n, init);
                }
                m.assign(init ? n : 0, 0);
                if (!init && a.Capacity() < n) cx.fail("capacity", "Array(size) reserved less than size");
                break;
            }
            case A_COPY_CTOR: {
                if (j == k) break;
                LibCall lc;
                a.~Arr();
                new (&a) Arr(*obj[k]);
                m = model[k];
                break;
            }
            case A_MOVE_CTOR: {
                if (j == k) break;
                {
                    LibCall lc;
                    a.~Arr();
                    new (&a) Arr(static_cast<Arr &&>(*obj[k]));
                }
                m = model[k];
                model[k].clear();
                if (obj[k]->Storage() != nullptr || obj[k]->Capacity() != 0) cx.fail("moved-from", "moved-from array keeps storage");
                break;
            }
            case A_COPY_ASSIGN: {
                LibCall lc;
                a = *obj[k]; // k == j: self-assignment
                if (j != k) m = model[k];
                break;
            }
            case A_MOVE_ASSIGN: {
                if (j == k) break;
                {
                    LibCall lc;
                    assign_in_own_unit(a, static_cast<Arr &&>(*obj[k]));
                }
                m = model[k];
                model[k].clear();
                if (obj[k]->Storage() != nullptr || obj[k]->Capacity() != 0) cx.fail("moved-from", "moved-from array keeps storage");
                break;
            }
            case A_ADD_ITEM_C: {
                LibCall lc;
                T       item = Elem<T>::make(tok);
                a += item;
                m.push_back(tok);
                break;
            }
            case A_ADD_ITEM_M: {
                LibCall lc;
                append_in_own_unit(a, Elem<T>::make(tok));
                m.push_back(tok);
                break;
            }
            case A_INSERT_ITEM_C: {
                T *ref;
                {
                    LibCall lc;
                    T       item = Elem<T>::make(tok);
                    ref          = &a.Insert(item);
                }
                m.push_back(tok);
                if (ref != a.Storage() + (m.size() - 1)) cx.fail("insert-ref", "Insert(item) returned a reference that is not the new last element");
                break;
            }
            case A_INSERT_ITEM_M: {
                T *ref;
                {
                    LibCall lc;
                    ref = &a.Insert(Elem<T>::make(tok));
                }
                m.push_back(tok);
                if (ref != a.Storage() + (m.size() - 1)) cx.fail("insert-ref", "Insert(item&&) returned a reference that is not the new last element");
                break;
            }
            case A_ADD_ARR_C:
            case A_INSERT_ARR_C: {
                {
                    LibCall lc;
                    if (kind == A_ADD_ARR_C)
                        a += *obj[k]; // k == j: the container appended to itself
                    else
                        a.Insert(*obj[k]);
                }
                std::vector<int64_t> src = model[k];
                if (j == k && !src.empty()) qsim::probe("seq.array.self-append");
                m.insert(m.end(), src.begin(), src.end());
                break;
            }
            case A_ADD_ARR_M:
            case A_INSERT_ARR_M: {
                if (j == k) break;
                {
                    LibCall lc;
                    if (kind == A_ADD_ARR_M)
                        a += static_cast<Arr &&>(*obj[k]);
                    else
                        a.Insert(static_cast<Arr &&>(*obj[k]));
                }
                m.insert(m.end(), model[k].begin(), model[k].end());
                model[k].clear();
                if (obj[k]->Storage() != nullptr || obj[k]->Capacity() != 0) cx.fail("moved-from", "moved-from array keeps storage");
                break;
            }
            case A_CLEAR: {
                LibCall lc;
                a.Clear();
                m.clear();
                break;
            }
            case A_RESET: {
                LibCall lc;
                a.Reset();
                m.clear();
                break;
            }
            case A_DETACH: {
                size_t sz = m.size();
                T     *ptr;
                {
                    LibCall lc;
                    ptr = a.Detach();
                }
                if (a.Storage() != nullptr || a.Size() != 0 || a.Capacity() != 0) cx.fail("detach", "array not empty after Detach()");
                {
                    LibCall lc;
                    Qentem::Memory::Dispose(ptr, (const T *)(ptr + sz));
                    Qentem::Memory::Deallocate(ptr);
                }
                m.clear();
                break;
            }
            case A_RESERVE: {
                bool init = (op.a[3] & 1) != 0;
                {
                    LibCall lc;
                    a.Reserve((SizeT)n, init);
                }
                m.assign(init ? n : 0, 0);
                if (a.Capacity() < n) cx.fail("capacity", "Reserve(n) left Capacity() < n");
                break;
            }
            case A_RESIZE: {
                {
                    LibCall lc;
                    a.Resize((SizeT)n);
                }
                if (m.size() > n) m.resize(n);
                if (a.Capacity() < n) cx.fail("capacity", "Resize(n) left Capacity() < n");
                break;
            }
            case A_RESIZE_INIT: {
                {
                    LibCall lc;
                    a.ResizeAndInitialize((SizeT)n);
                }
                m.resize(n, 0);
                break;
            }
            case A_EXPECT: {
                {
                    LibCall lc;
                    a.Expect((SizeT)n);
                }
                if (a.Capacity() < m.size() + n) cx.fail("capacity", "Expect(n) left Capacity() < Size()+n");
                break;
            }
            case A_COMPRESS: {
                LibCall lc;
                a.Compress();
                break;
            }
            case A_DROP: {
                size_t d = m.empty() ? n % 3 : n % (m.size() + 2);
                {
                    LibCall lc;
                    a.Drop((SizeT)d);
                }
                if (d <= m.size()) m.resize(m.size() - d);
                break;
            }
            case A_SWAP: {
                if (m.empty()) break;
                size_t i1 = (size_t)((uint64_t)op.a[2] % m.size()), i2 = (size_t)((uint64_t)op.a[3] % m.size());
                if (i1 == i2) break;
                {
                    LibCall lc;
                    a.Swap(a.Storage()[i1], a.Storage()[i2]);
                }
                std::swap(m[i1], m[i2]);
                break;
            }
            case A_SET_ELEM: {
                if (m.empty()) break;
                size_t i1 = (size_t)((uint64_t)op.a[2] % m.size());
                {
                    LibCall lc;
                    a.Storage()[i1] = Elem<T>::make(tok);
                }
                m[i1] = tok;
                break;
            }
            default: break;
        }
        if (a.Size() == a.Capacity() && a.Size() != 0) qsim::probe("seq.array.full");
    }
};

// ------------------------------------------------------------------------------------------------
// Array<T> with a recursive owning T: arrays nested in their own elements, assignment from a descendant
// ------------------------------------------------------------------------------------------------
struct RNode {
    SizeT                 id{0};
    Qentem::Array<RNode>  kids;
};
struct MNode {
    uint64_t           id{0};
    std::vector<MNode> kids;
};
enum NodeOp { N_ADD = 0, N_ASSIGN_COPY_FROM_CHILD, N_ASSIGN_MOVE_FROM_CHILD, N_DROP, N_CLEAR, N_COPY_ROOT, N_MOVE_ROOT, N_MOVE_APPEND_CHILD, N_COUNT };
static const char *node_op_name[] = {"add", "assign-copy-from-child", "assign-move-from-child", "drop", "clear", "copy-root", "move-root", "move-append-child"};

struct NodeW {
    using Arr              = Qentem::Array<RNode>;
    static constexpr int K = 2;
    ArenaObj<Arr>        root[K];
    std::vector<MNode>   model[K];
    Ctx                 &cx;
    explicit NodeW(Ctx &c) : cx(c) {
        LibCall lc;
        for (int i = 0; i < K; i++) new (root[i].p) Arr();
    }
    void teardown() {
        LibCall lc;
        for (int i = 0; i < K; i++) root[i]->~Arr();
    }
    static size_t count(const std::vector<MNode> &m) {
        size_t n = m.size();
        for (auto &k : m) n += count(k.kids);
        return n;
    }
    bool cmp(const Arr &a, const std::vector<MNode> &m, int depth) {
        if (a.Size() != m.size() || a.Capacity() < a.Size()) {
            cx.fail("size", "nested array size differs from the model at depth " + std::to_string(depth));
            return false;
        }
        if (m.empty()) return true;
        if (!qsim::readable(a.First(), m.size() * sizeof(RNode))) {
            cx.fail("storage", "nested array storage is not a live block");
            return false;
        }
        for (size_t i = 0; i < m.size(); i++) {
            if (a.First()[i].id != (SizeT)m[i].id) {
                cx.fail("element", "element id differs from the model at depth " + std::to_string(depth));
                return false;
            }
            qsim::obs(m[i].id * 31 + (uint64_t)depth);
            if (!cmp(a.First()[i].kids, m[i].kids, depth + 1)) return false;
        }
        return true;
    }
    void check() {
        for (int i = 0; i < K && !cx.failed; i++) cmp(*root[i], model[i], 0);
    }
    Arr *nav(int r, uint64_t sel, std::vector<MNode> *&m) {
        Arr *a = root[r].p;
        m      = &model[r];
        for (int level = 0; level < 3; level++) {
            uint64_t d = sel % 8;
            sel /= 8;
            if (m->empty()) break;
            size_t c = (size_t)(d % (m->size() + 1));
            if (c == m->size()) break;
            a = &a->Storage()[c].kids;
            m = &(*m)[c].kids;
        }
        return a;
    }
    void exec(const Op &op) {
        int                 kind = (int)((uint64_t)op.kind % N_COUNT);
        int                 j    = (int)((uint64_t)op.a[0] % K);
        uint64_t            tok  = (uint64_t)op.a[3];
        cx.opname                = node_op_name[kind];
        std::vector<MNode> *m    = nullptr;
        Arr                *a    = nav(j, (uint64_t)op.a[1], m);
        switch (kind) {
            case N_ADD: {
                if (count(model[0]) + count(model[1]) > 60) break;
                size_t n = 1 + (size_t)(tok % 3);
                for (size_t i = 0; i < n; i++) {
                    {
                        LibCall lc;
                        RNode   nn;
                        nn.id = (SizeT)(tok + i);
                        *a += static_cast<RNode &&>(nn);
                    }
                    MNode mn;
                    mn.id = (SizeT)(tok + i);
                    m->push_back(mn);
                }
                break;
            }
            case N_ASSIGN_COPY_FROM_CHILD:
            case N_ASSIGN_MOVE_FROM_CHILD: {
                if (m->empty()) break;
                size_t c = (size_t)(tok % m->size());
                // optionally one level deeper: a grandchild's array
                Arr                *src = &a->Storage()[c].kids;
                std::vector<MNode> *sm  = &(*m)[c].kids;
                if ((op.a[4] & 1) && !sm->empty()) {
                    size_t g = (size_t)((tok / 7) % sm->size());
                    src      = &src->Storage()[g].kids;
                    sm       = &(*sm)[g].kids;
                }
                std::vector<MNode> taken = *sm;
                qsim::probe("seq.array.assign-from-descendant");
                {
                    LibCall lc;
                    if (kind == N_ASSIGN_COPY_FROM_CHILD)
                        *a = static_cast<const Arr &>(*src);
                    else
                        *a = static_cast<Arr &&>(*src);
                }
                *m = taken;
                break;
            }
            case N_MOVE_APPEND_CHILD: {
                // a += Move(b) where b is an array of the OTHER root (no aliasing)
                std::vector<MNode> *om = nullptr;
                Arr                *o  = nav(1 - j, (uint64_t)op.a[2], om);
                {
                    LibCall lc;
                    append_in_own_unit(*a, static_cast<Arr &&>(*o));
                }
                m->insert(m->end(), om->begin(), om->end());
                om->clear();
                break;
            }
            case N_DROP: {
                size_t d = m->empty() ? 0 : (size_t)(tok % (m->size() + 1));
                {
                    LibCall lc;
                    a->Drop((SizeT)d);
                }
                m->resize(m->size() - d);
                break;
            }
            case N_CLEAR: {
                LibCall lc;
                if (tok & 1)
                    a->Clear();
                else
                    a->Reset();
                m->clear();
                break;
            }
            case N_COPY_ROOT: {
                if (count(model[0]) + count(model[1]) > 60) break;
                LibCall lc;
                assign_in_own_unit(*root[j], static_cast<const Arr &>(*root[1 - j]));
                model[j] = model[1 - j];
                break;
            }
            case N_MOVE_ROOT: {
                LibCall lc;
                assign_in_own_unit(*root[j], static_cast<Arr &&>(*root[1 - j]));
                model[j] = model[1 - j];
                model[1 - j].clear();
                break;
            }
            default: break;
        }
    }
};

// ------------------------------------------------------------------------------------------------
// native code-unit comparison (the order Char_T itself has)
// ------------------------------------------------------------------------------------------------
template <typename C>
static int cmp_units(const U32 &l, const U32 &r) {
    size_t n = std::min(l.size(), r.size());
    for (size_t i = 0; i < n; i++) {
        C a = (C)l[i], b = (C)r[i];
        if (a < b) return -1;
        if (a > b) return 1;
    }
    return l.size() < r.size() ? -1 : (l.size() > r.size() ? 1 : 0);
}
template <typename C>
static U32 mask_units(const U32 &s) {
    U32 o = s;
    for (auto &c : o) c &= unit_mask<C>();
    return o;
}
static U32 cut_at_nul(const U32 &s) {
    size_t p = s.find(U'\0');
    return p == U32::npos ? s : s.substr(0, p);
}
static U32 model_trim(const U32 &s) {
    size_t b = 0, e = s.size();
    auto   ws = [](char32_t c) { return c == ' ' || c == '\n' || c == '\t' || c == '\r'; };
    while (b < e && ws(s[b])) b++;
    while (e > b && ws(s[e - 1])) e--;
    return s.substr(b, e - b);
}

// ------------------------------------------------------------------------------------------------
// String<C>
// ------------------------------------------------------------------------------------------------
enum StrOp {
    S_REINIT = 0, S_CTOR_LEN, S_CTOR_PTR_LEN, S_CTOR_CSTR, S_CTOR_ADOPT, S_COPY_CTOR, S_MOVE_CTOR, S_COPY_ASSIGN,
    S_MOVE_ASSIGN, S_ASSIGN_CSTR, S_ADD_STR_C, S_ADD_STR_M, S_ADD_CSTR, S_ADD_CHAR, S_PLUS_C, S_PLUS_M, S_PLUS_CSTR,
    S_SHL_CSTR, S_SHL_STR, S_CMP_STR, S_CMP_CSTR, S_ISEQUAL, S_RESET, S_DETACH, S_WRITE, S_WRITE_SELF, S_TRIM,
    S_STEPBACK, S_REVERSE, S_INSERTAT, S_MERGE, S_COUNT
};
static const char *str_op_name[] = {"reinit", "ctor-len", "ctor-ptr-len", "ctor-cstr", "ctor-adopt", "copy-ctor",
                                    "move-ctor", "copy-assign", "move-assign", "assign-cstr", "add-string-copy",
                                    "add-string-move", "add-cstr", "add-char", "plus-copy", "plus-move", "plus-cstr",
                                    "shl-cstr", "shl-string", "compare-string", "compare-cstr", "isequal", "reset",
                                    "detach", "write", "write-self", "trim", "stepback", "reverse", "insertat", "merge"};

template <typename C>
struct StrW {
    using Str              = Qentem::String<C>;
    static constexpr int K = 3;
    ArenaObj<Str>        obj[K];
    U32                  model[K];
    Ctx                 &cx;

    explicit StrW(Ctx &c) : cx(c) {
        LibCall lc;
        for (int i = 0; i < K; i++) new (obj[i].p) Str();
    }
    void teardown() {
        LibCall lc;
        for (int i = 0; i < K; i++) obj[i]->~Str();
    }
    bool check_one(const Str &s, const U32 &m, const char *who) {
        size_t len = s.Length();
        if (len != m.size()) {
            cx.fail("length", std::string(who) + ": Length()=" + std::to_string(len) + " model=" + std::to_string(m.size()));
            return false;
        }
        if (s.Storage() == nullptr) {
            if (len != 0) cx.fail("storage", "non-empty string without storage");
            return len == 0;
        }
        U32 got;
        if (!read_units(s.First(), len + 1, got, "string-storage")) {
            cx.failed = true;
            return false;
        }
        if (got[len] != 0) {
            cx.fail("terminator", std::string(who) + ": no NUL at [Length()]");
            return false;
        }
        got.resize(len);
        if (got != m) {
            cx.fail("content", std::string(who) + ": \"" + to_printable(got) + "\" model \"" + to_printable(m) + "\"");
            return false;
        }
        if (s.End() != s.First() + len || s.IsEmpty() != (len == 0) ||
            s.Last() != (len ? s.First() + (len - 1) : nullptr)) {
            cx.fail("accessors", "End/Last/IsEmpty disagree with Length");
            return false;
        }
        return true;
    }
    void check() {
        for (int i = 0; i < K && !cx.failed; i++) {
            char who[16];
            snprintf(who, sizeof who, "obj%d", i);
            if (!check_one(*obj[i], model[i], who)) return;
            qsim::obs(model[i].size() * 7919ULL + (uint64_t)i);
            for (char32_t c : model[i]) qsim::obs((uint64_t)c);
        }
    }
    void cmp_check(const char *what, bool got, bool want) {
        if (got != want) cx.fail(what, std::string("comparison ") + what + " returned " + (got ? "true" : "false"));
    }

    void exec(const Op &op) {
        int  j    = (int)((uint64_t)op.a[0] % K);
        int  k    = (int)((uint64_t)op.a[1] % K);
        int  kind = (int)((uint64_t)op.kind % S_COUNT);
        U32  txt  = mask_units<C>(op.s.empty() ? U32() : unpack_units(op.s[0]));
        cx.opname = str_op_name[kind];
        Str &s = *obj[j];
        U32 &m = model[j];
        switch (kind) {
            case S_REINIT: {
                LibCall lc;
                s.~Str();
                new (&s) Str();
                m.clear();
                break;
            }
            case S_CTOR_LEN: {
                {
                    LibCall lc;
                    s.~Str();
                    new (&s) Str((SizeT)txt.size());
                }
                if (txt.size() != 0) {
                    if (!qsim::readable(s.Storage(), (txt.size() + 1) * sizeof(C))) {
                        cx.fail("storage", "String(len) did not allocate len+1 units");
                        break;
                    }
                    for (size_t i = 0; i < txt.size(); i++) s.Storage()[i] = (C)txt[i];
                }
                m = txt;
                break;
            }
            case S_CTOR_PTR_LEN: {
                ArenaText<C> t(txt);
                LibCall      lc;
                s.~Str();
                new (&s) Str((const C *)t.ptr, (SizeT)t.len);
                m = txt;
                break;
            }
            case S_CTOR_CSTR: {
                U32          z = cut_at_nul(txt);
                ArenaText<C> t(z, true);
                LibCall      lc;
                s.~Str();
                new (&s) Str((const C *)t.ptr);
                m = z;
                break;
            }
            case S_CTOR_ADOPT: {
                C *ptr;
                {
                    LibCall lc;
                    ptr = Qentem::Memory::Allocate<C>((SizeT)(txt.size() + 1));
                }
                for (size_t i = 0; i < txt.size(); i++) ptr[i] = (C)txt[i];
                ptr[txt.size()] = C{0};
                {
                    LibCall lc;
                    s.~Str();
                    new (&s) Str(ptr, (SizeT)txt.size());
                }
                m = txt;
                break;
            }
            case S_COPY_CTOR: {
                if (j == k) break;
                LibCall lc;
                s.~Str();
                new (&s) Str(*obj[k]);
                m = model[k];
                break;
            }
            case S_MOVE_CTOR: {
                if (j == k) break;
                {
                    LibCall lc;
                    s.~Str();
                    new (&s) Str(static_cast<Str &&>(*obj[k]));
                }
                m = model[k];
                model[k].clear();
                if (obj[k]->Storage() != nullptr) cx.fail("moved-from", "moved-from string keeps storage");
                break;
            }
            case S_COPY_ASSIGN: {
                LibCall lc;
                assign_in_own_unit(s, *obj[k]);
                if (j != k) m = model[k];
                break;
            }
            case S_MOVE_ASSIGN: {
                if (j == k) break;
                {
                    LibCall lc;
                    assign_in_own_unit(s, static_cast<Str &&>(*obj[k]));
                }
                m = model[k];
                model[k].clear();
                if (obj[k]->Storage() != nullptr) cx.fail("moved-from", "moved-from string keeps storage");
                break;
            }
            case S_ASSIGN_CSTR: {
                U32          z = cut_at_nul(txt);
                ArenaText<C> t(z, true);
                LibCall      lc;
                assign_in_own_unit(s, (const C *)t.ptr);
                m = z;
                break;
            }
            case S_ADD_STR_C: {
                U32 src = model[k];
                {
                    LibCall lc;
                    append_in_own_unit(s, *obj[k]);
                }
                if (j == k && !src.empty()) qsim::probe("seq.string.self-append");
                m += src;
                break;
            }
            case S_ADD_STR_M: {
                if (j == k) break;
                {
                    LibCall lc;
                    append_in_own_unit(s, static_cast<Str &&>(*obj[k]));
                }
                m += model[k];
                model[k].clear();
                break;
            }
            case S_ADD_CSTR: {
                U32          z = cut_at_nul(txt);
                ArenaText<C> t(z, true);
                LibCall      lc;
                append_in_own_unit(s, (const C *)t.ptr);
                m += z;
                break;
            }
            case S_ADD_CHAR: {
                C ch = (C)(op.a[3] & unit_mask<C>());
                {
                    LibCall lc;
                    append_in_own_unit(s, ch);
                }
                // operator+=(Char_T) writes one unit whatever its value
                m.push_back((char32_t)(typename std::make_unsigned<C>::type)ch);
                break;
            }
            case S_PLUS_C:
            case S_MERGE: {
                ArenaObj<Str> r;
                {
                    LibCall lc;
                    if (kind == S_PLUS_C)
                        new (r.p) Str(s + *obj[k]);
                    else
                        new (r.p) Str(Str::Merge(s, *obj[k]));
                }
                check_one(*r, m + model[k], "result");
                {
                    LibCall lc;
                    r->~Str();
                }
                break;
            }
            case S_PLUS_M: {
                if (j == k) break;
                ArenaObj<Str> r;
                {
                    LibCall lc;
                    new (r.p) Str(s + static_cast<Str &&>(*obj[k]));
                }
                check_one(*r, m + model[k], "result");
                model[k].clear();
                {
                    LibCall lc;
                    r->~Str();
                }
                break;
            }
            case S_PLUS_CSTR: {
                U32           z = cut_at_nul(txt);
                ArenaText<C>  t(z, true);
                ArenaObj<Str> r;
                {
                    LibCall lc;
                    new (r.p) Str(s + (const C *)t.ptr);
                }
                check_one(*r, m + z, "result");
                {
                    LibCall lc;
                    r->~Str();
                }
                break;
            }
            case S_SHL_CSTR: {
                U32          z = cut_at_nul(txt);
                ArenaText<C> t(z, true);
                LibCall      lc;
                s << (const C *)t.ptr;
                m += z;
                break;
            }
            case S_SHL_STR: {
                U32 src = model[k];
                {
                    LibCall lc;
                    s << *obj[k];
                }
                m += src;
                break;
            }
            case S_CMP_STR: {
                const Str &o = *obj[k];
                bool       eq, ne, lt, le, gt, ge;
                {
                    LibCall lc;
                    eq = (s == o);
                    ne = (s != o);
                    lt = (s < o);
                    le = (s <= o);
                    gt = (s > o);
                    ge = (s >= o);
                }
                int c = cmp_units<C>(m, model[k]);
                if (c != 0 && (m.size() < model[k].size() ? model[k].compare(0, m.size(), m) == 0
                                                          : m.compare(0, model[k].size(), model[k]) == 0))
                    qsim::probe("seq.string.compare-prefix");
                cmp_check("==", eq, c == 0);
                cmp_check("!=", ne, c != 0);
                cmp_check("<", lt, c < 0);
                cmp_check("<=", le, c <= 0);
                cmp_check(">", gt, c > 0);
                cmp_check(">=", ge, c >= 0);
                break;
            }
            case S_CMP_CSTR: {
                U32          z = cut_at_nul(txt);
                ArenaText<C> t(z, true);
                bool         eq, ne, lt, le, gt, ge;
                {
                    LibCall  lc;
                    const C *p = t.ptr;
                    eq = (s == p);
                    ne = (s != p);
                    lt = (s < p);
                    le = (s <= p);
                    gt = (s > p);
                    ge = (s >= p);
                }
                if (s.Storage() == nullptr) qsim::probe("seq.string.compare-null-storage");
                // String::operator==(const Char_T*) stops at the first NUL of the string as well; only NUL-free
                // strings have a defined expectation here
                if (m.find(U'\0') == U32::npos) {
                    int c = cmp_units<C>(m, z);
                    cmp_check("==cstr", eq, c == 0);
                    cmp_check("!=cstr", ne, c != 0);
                    cmp_check("<cstr", lt, c < 0);
                    cmp_check("<=cstr", le, c <= 0);
                    cmp_check(">cstr", gt, c > 0);
                    cmp_check(">=cstr", ge, c >= 0);
                }
                break;
            }
            case S_ISEQUAL: {
                U32 other = (op.a[3] & 1) ? m : txt;
                ArenaText<C> t(other);
                bool         r;
                {
                    LibCall lc;
                    r = s.IsEqual(t.ptr, (SizeT)t.len);
                }
                cmp_check("IsEqual", r, other == m);
                break;
            }
            case S_RESET: {
                LibCall lc;
                s.Reset();
                m.clear();
                break;
            }
            case S_DETACH: {
                C *ptr;
                {
                    LibCall lc;
                    ptr = s.Detach();
                }
                if (s.Storage() != nullptr || s.Length() != 0) cx.fail("detach", "string not empty after Detach()");
                if ((op.a[3] & 1) && ptr != nullptr) {
                    // adopt it back into another object
                    size_t len = m.size();
                    U32    keep = m;
                    m.clear();
                    LibCall lc;
                    obj[k]->~Str();
                    new (obj[k].p) Str(ptr, (SizeT)len);
                    model[k] = keep;
                } else {
                    LibCall lc;
                    Qentem::Memory::Deallocate(ptr);
                    m.clear();
                }
                break;
            }
            case S_WRITE: {
                ArenaText<C> t(txt);
                LibCall      lc;
                s.Write(t.ptr, (SizeT)t.len);
                m += txt;
                break;
            }
            case S_WRITE_SELF: {
                if (m.empty()) break;
                size_t off = (size_t)((uint64_t)op.a[2] % m.size());
                size_t n   = 1 + (size_t)((uint64_t)op.a[3] % (m.size() - off));
                U32    src = m.substr(off, n);
                {
                    LibCall lc;
                    s.Write(s.First() + off, (SizeT)n);
                }
                qsim::probe("seq.string.write-self");
                m += src;
                break;
            }
            case S_TRIM: {
                ArenaObj<Str> r;
                {
                    LibCall lc;
                    new (r.p) Str(Str::Trim(s));
                }
                check_one(*r, model_trim(m), "result");
                {
                    LibCall lc;
                    r->~Str();
                }
                break;
            }
            case S_STEPBACK: {
                size_t n = (size_t)((uint64_t)op.a[2] % (m.size() + 2));
                if (s.Storage() == nullptr) qsim::probe("seq.string.stepback-null-storage");
                {
                    LibCall lc;
                    s.StepBack((SizeT)n);
                }
                if (n <= m.size()) m.resize(m.size() - n);
                break;
            }
            case S_REVERSE: {
                size_t idx = (size_t)((uint64_t)op.a[2] % (m.size() + 2));
                {
                    LibCall lc;
                    s.Reverse((SizeT)idx);
                }
                if (idx < m.size()) std::reverse(m.begin() + (long)idx, m.end());
                break;
            }
            case S_INSERTAT: {
                size_t idx = (size_t)((uint64_t)op.a[2] % (m.size() + 2));
                C      ch  = (C)((op.a[3] & unit_mask<C>()) | 1);
                {
                    LibCall lc;
                    s.InsertAt(ch, (SizeT)idx);
                }
                if (idx < m.size()) m.insert(m.begin() + (long)idx, (char32_t)(typename std::make_unsigned<C>::type)ch);
                break;
            }
            default: break;
        }
    }
};

// ------------------------------------------------------------------------------------------------
// StringStream<C>
// ------------------------------------------------------------------------------------------------
enum StmOp {
    T_REINIT = 0, T_CTOR_SIZE, T_COPY_CTOR, T_MOVE_CTOR, T_COPY_ASSIGN, T_MOVE_ASSIGN, T_ASSIGN_CSTR, T_ASSIGN_STR,
    T_ASSIGN_VIEW, T_ADD_CHAR, T_ADD_STREAM, T_ADD_STR, T_ADD_VIEW, T_ADD_CSTR, T_SHL_STREAM, T_SHL_STR, T_SHL_VIEW,
    T_SHL_CHAR, T_SHL_CSTR, T_CMP_STREAM, T_CMP_STR, T_CMP_VIEW, T_CMP_CSTR, T_ISEQUAL, T_WRITE, T_WRITE_SELF,
    T_SHL_SELF_VIEW, T_CLEAR, T_RESET, T_STEPBACK, T_REVERSE, T_INSERTAT, T_SETLENGTH, T_BUFFER, T_EXPECT, T_RESERVE,
    T_DETACH, T_GETSTRING, T_GETVIEW, T_INSERTNULL, T_COUNT
};
static const char *stm_op_name[] = {"reinit", "ctor-size", "copy-ctor", "move-ctor", "copy-assign", "move-assign",
                                    "assign-cstr", "assign-string", "assign-view", "add-char", "add-stream",
                                    "add-string", "add-view", "add-cstr", "shl-stream", "shl-string", "shl-view",
                                    "shl-char", "shl-cstr", "compare-stream", "compare-string", "compare-view",
                                    "compare-cstr", "isequal", "write", "write-self", "shl-self-view", "clear", "reset",
                                    "stepback", "reverse", "insertat", "setlength", "buffer", "expect", "reserve",
                                    "detach", "getstring", "getview", "insertnull"};

template <typename C>
struct StmW {
    using Stm              = Qentem::StringStream<C>;
    using Str              = Qentem::String<C>;
    using View             = Qentem::StringView<C>;
    static constexpr int K = 3;
    ArenaObj<Stm>        obj[K];
    U32                  model[K];
    Ctx                 &cx;

    explicit StmW(Ctx &c) : cx(c) {
        LibCall lc;
        for (int i = 0; i < K; i++) new (obj[i].p) Stm();
    }
    void teardown() {
        LibCall lc;
        for (int i = 0; i < K; i++) obj[i]->~Stm();
    }
    void check() {
        for (int i = 0; i < K && !cx.failed; i++) {
            const Stm &s   = *obj[i];
            size_t     len = s.Length(), cap = s.Capacity();
            char       who[16];
            snprintf(who, sizeof who, "obj%d", i);
            if (len != model[i].size()) {
                cx.fail("length", std::string(who) + ": Length()=" + std::to_string(len) + " model=" + std::to_string(model[i].size()));
                return;
            }
            if (cap < len) {
                cx.fail("capacity", "Capacity() < Length()");
                return;
            }
            if (cap != 0 && !qsim::readable(s.Storage(), cap * sizeof(C))) {
                cx.fail("storage", "Storage() is not a live block of Capacity() units");
                return;
            }
            U32 got;
            if (!read_units(s.First(), len, got, "stream-storage")) {
                cx.failed = true;
                return;
            }
            if (got != model[i]) {
                cx.fail("content", std::string(who) + ": \"" + to_printable(got) + "\" model \"" + to_printable(model[i]) + "\"");
                return;
            }
            if (s.End() != s.First() + len || s.IsEmpty() != (len == 0) ||
                s.Last() != (len ? s.Storage() + (len - 1) : nullptr)) {
                cx.fail("accessors", "End/Last/IsEmpty disagree with Length");
                return;
            }
            qsim::obs(len * 104729ULL + (uint64_t)i);
            for (char32_t c : model[i]) qsim::obs((uint64_t)c);
        }
    }
    void cmp_check(const char *what, bool got, bool want) {
        if (got != want) cx.fail(what, std::string("comparison ") + what + " returned " + (got ? "true" : "false"));
    }
    void note_growth(const Stm &s, size_t add) {
        if (s.Length() + add > s.Capacity()) qsim::probe("seq.stream.grow");
    }

    void exec(const Op &op) {
        int  j    = (int)((uint64_t)op.a[0] % K);
        int  k    = (int)((uint64_t)op.a[1] % K);
        int  kind = (int)((uint64_t)op.kind % T_COUNT);
        U32  txt  = mask_units<C>(op.s.empty() ? U32() : unpack_units(op.s[0]));
        const size_t big = (size_t)((uint64_t)op.a[5] % 2400000); // a few operations ask for far more than 64 Ki units at once, very few for more than 1 Mi
        if (big != 0) {
            txt.resize(big);
            for (size_t i = 0; i < big; i++) txt[i] = (char32_t)('a' + (i * 7 + big) % 26);
            qsim::probe("seq.stream.big-request");
        }
        cx.opname = stm_op_name[kind];
        Stm &s = *obj[j];
        U32 &m = model[j];
        switch (kind) {
            case T_REINIT: {
                LibCall lc;
                s.~Stm();
                new (&s) Stm();
                m.clear();
                break;
            }
            case T_CTOR_SIZE: {
                size_t n = big != 0 ? big : (size_t)((uint64_t)op.a[2] % 40);
                {
                    LibCall lc;
                    s.~Stm();
                    new (&s) Stm((SizeT)n);
                }
                m.clear();
                if (s.Capacity() < n) cx.fail("capacity", "StringStream(size) reserved less than size");
                break;
            }
            case T_COPY_CTOR: {
                if (j == k) break;
                LibCall lc;
                s.~Stm();
                new (&s) Stm(*obj[k]);
                m = model[k];
                break;
            }
            case T_MOVE_CTOR: {
                if (j == k) break;
                {
                    LibCall lc;
                    s.~Stm();
                    new (&s) Stm(static_cast<Stm &&>(*obj[k]));
                }
                m = model[k];
                model[k].clear();
                if (obj[k]->Storage() != nullptr || obj[k]->Capacity() != 0) cx.fail("moved-from", "moved-from stream keeps storage");
                break;
            }
            case T_COPY_ASSIGN: {
                LibCall lc;
                assign_in_own_unit(s, *obj[k]);
                if (j != k) m = model[k];
                break;
            }
            case T_MOVE_ASSIGN: {
                if (j == k) break;
                {
                    LibCall lc;
                    assign_in_own_unit(s, static_cast<Stm &&>(*obj[k]));
                }
                m = model[k];
                model[k].clear();
                if (obj[k]->Storage() != nullptr || obj[k]->Capacity() != 0) cx.fail("moved-from", "moved-from stream keeps storage");
                break;
            }
            case T_ASSIGN_CSTR: {
                U32          z = cut_at_nul(txt);
                ArenaText<C> t(z, true);
                LibCall      lc;
                assign_in_own_unit(s, (const C *)t.ptr);
                m = z;
                break;
            }
            case T_ASSIGN_STR: {
                ArenaText<C> t(txt);
                LibCall      lc;
                Str          tmp{(const C *)t.ptr, (SizeT)t.len};
                s = tmp;
                m = txt;
                break;
            }
            case T_ASSIGN_VIEW: {
                if ((op.a[4] & 1) != 0 && !m.empty() && big == 0) {
                    // a view into the stream's own storage (drop a prefix / keep a middle part): assignment clears and
                    // writes, and the write copies downwards over itself
                    size_t off = (size_t)((uint64_t)op.a[2] % m.size());
                    size_t n   = 1 + (size_t)((uint64_t)op.a[3] % (m.size() - off));
                    U32    sub = m.substr(off, n);
                    qsim::probe("seq.stream.assign-own-interior");
                    {
                        LibCall lc;
                        View    v{s.First() + off, (SizeT)n};
                        s = v;
                    }
                    m = sub;
                    break;
                }
                ArenaText<C> t(txt);
                LibCall      lc;
                View         v{(const C *)t.ptr, (SizeT)t.len};
                s = v;
                m = txt;
                break;
            }
            case T_ADD_CHAR:
            case T_SHL_CHAR: {
                C ch = (C)(op.a[3] & unit_mask<C>());
                note_growth(s, 1);
                {
                    LibCall lc;
                    if (kind == T_ADD_CHAR)
                        s += ch;
                    else
                        s << ch;
                }
                m.push_back((char32_t)(typename std::make_unsigned<C>::type)ch);
                break;
            }
            case T_ADD_STREAM:
            case T_SHL_STREAM: {
                U32 src = model[k];
                if (j == k && !src.empty()) {
                    qsim::probe("seq.stream.self-append");
                    if (s.Length() + src.size() > s.Capacity()) qsim::probe("seq.stream.self-append-grow");
                }
                note_growth(s, src.size());
                {
                    LibCall lc;
                    if (kind == T_ADD_STREAM)
                        s += *obj[k];
                    else
                        s << *obj[k];
                }
                m += src;
                break;
            }
            case T_ADD_STR:
            case T_SHL_STR: {
                ArenaText<C> t(txt);
                note_growth(s, txt.size());
                LibCall lc;
                Str     tmp{(const C *)t.ptr, (SizeT)t.len};
                if (kind == T_ADD_STR)
                    s += tmp;
                else
                    s << tmp;
                m += txt;
                break;
            }
            case T_ADD_VIEW: {
                if (sizeof(C) != 1) break; // operator+=(const StringView<char>&) exists for char only
                add_view_char(s, m, txt);
                break;
            }
            case T_SHL_VIEW: {
                ArenaText<C> t(txt);
                note_growth(s, txt.size());
                LibCall lc;
                View    v{(const C *)t.ptr, (SizeT)t.len};
                s << v;
                m += txt;
                break;
            }
            case T_ADD_CSTR:
            case T_SHL_CSTR: {
                U32          z = cut_at_nul(txt);
                ArenaText<C> t(z, true);
                note_growth(s, z.size());
                LibCall lc;
                if (kind == T_ADD_CSTR)
                    s += (const C *)t.ptr;
                else
                    s << (const C *)t.ptr;
                m += z;
                break;
            }
            case T_CMP_STREAM: {
                bool eq, ne;
                {
                    LibCall lc;
                    eq = (s == *obj[k]);
                    ne = (s != *obj[k]);
                }
                cmp_check("==stream", eq, m == model[k]);
                cmp_check("!=stream", ne, m != model[k]);
                break;
            }
            case T_CMP_STR:
            case T_CMP_VIEW:
            case T_ISEQUAL: {
                U32          other = (op.a[3] & 1) ? m : txt;
                ArenaText<C> t(other);
                bool         eq, ne;
                {
                    LibCall lc;
                    if (kind == T_CMP_STR) {
                        Str tmp{(const C *)t.ptr, (SizeT)t.len};
                        eq = (s == tmp);
                        ne = (s != tmp);
                    } else if (kind == T_CMP_VIEW) {
                        View v{(const C *)t.ptr, (SizeT)t.len};
                        eq = (s == v);
                        ne = (s != v);
                    } else {
                        eq = s.IsEqual(t.ptr, (SizeT)t.len);
                        ne = !eq;
                    }
                }
                cmp_check("==", eq, m == other);
                cmp_check("!=", ne, m != other);
                break;
            }
            case T_CMP_CSTR: {
                U32          other = cut_at_nul((op.a[3] & 1) ? m : txt);
                ArenaText<C> t(other, true);
                bool         eq, ne;
                {
                    LibCall lc;
                    eq = (s == (const C *)t.ptr);
                    ne = (s != (const C *)t.ptr);
                }
                cmp_check("==cstr", eq, m == other);
                cmp_check("!=cstr", ne, m != other);
                break;
            }
            case T_WRITE: {
                ArenaText<C> t(txt);
                note_growth(s, txt.size());
                LibCall lc;
                s.Write(t.ptr, (SizeT)t.len);
                m += txt;
                break;
            }
            case T_WRITE_SELF:
            case T_SHL_SELF_VIEW: {
                if (m.empty()) break;
                size_t off = (size_t)((uint64_t)op.a[2] % m.size());
                size_t n   = 1 + (size_t)((uint64_t)op.a[3] % (m.size() - off));
                U32    src = m.substr(off, n);
                qsim::probe("seq.stream.self-append");
                if (s.Length() + n > s.Capacity()) qsim::probe("seq.stream.self-append-grow");
                {
                    LibCall lc;
                    if (kind == T_WRITE_SELF) {
                        s.Write(s.First() + off, (SizeT)n);
                    } else {
                        View v{s.First() + off, (SizeT)n};
                        s << v;
                    }
                }
                m += src;
                break;
            }
            case T_CLEAR: {
                LibCall lc;
                s.Clear();
                m.clear();
                break;
            }
            case T_RESET: {
                LibCall lc;
                s.Reset();
                m.clear();
                break;
            }
            case T_STEPBACK: {
                size_t n = (size_t)((uint64_t)op.a[2] % (m.size() + 2));
                {
                    LibCall lc;
                    s.StepBack((SizeT)n);
                }
                if (n <= m.size()) m.resize(m.size() - n);
                break;
            }
            case T_REVERSE: {
                size_t idx = (size_t)((uint64_t)op.a[2] % (m.size() + 2));
                {
                    LibCall lc;
                    s.Reverse((SizeT)idx);
                }
                if (idx < m.size()) std::reverse(m.begin() + (long)idx, m.end());
                break;
            }
            case T_INSERTAT: {
                size_t idx = (size_t)((uint64_t)op.a[2] % (m.size() + 2));
                C      ch  = (C)((op.a[3] & unit_mask<C>()) | 1);
                note_growth(s, 1);
                {
                    LibCall lc;
                    s.InsertAt(ch, (SizeT)idx);
                }
                if (idx < m.size()) m.insert(m.begin() + (long)idx, (char32_t)(typename std::make_unsigned<C>::type)ch);
                break;
            }
            case T_SETLENGTH: {
                size_t n = big ? m.size() + big : (size_t)((uint64_t)op.a[2] % (m.size() + 12));
                {
                    LibCall lc;
                    s.SetLength((SizeT)n);
                }
                if (n <= m.size()) {
                    m.resize(n);
                } else {
                    // the new units are unspecified until written
                    if (!qsim::readable(s.Storage(), n * sizeof(C))) {
                        cx.fail("storage", "SetLength(n) did not provide n units");
                        break;
                    }
                    for (size_t i = m.size(); i < n; i++) {
                        C u            = (C)(('A' + i % 26));
                        s.Storage()[i] = u;
                        m.push_back((char32_t)u);
                    }
                }
                break;
            }
            case T_BUFFER: {
                size_t n   = txt.size();
                size_t old = m.size();
                C     *p;
                note_growth(s, n);
                {
                    LibCall lc;
                    p = s.Buffer((SizeT)n);
                }
                if (p != s.Storage() + old) {
                    cx.fail("buffer", "Buffer(len) did not return Storage()+old length");
                    break;
                }
                if (n != 0 && !qsim::readable(p, n * sizeof(C))) {
                    cx.fail("storage", "Buffer(len) returned fewer than len units");
                    break;
                }
                for (size_t i = 0; i < n; i++) p[i] = (C)txt[i];
                m += txt;
                break;
            }
            case T_EXPECT: {
                size_t n = big ? big : (size_t)((uint64_t)op.a[2] % 40);
                {
                    LibCall lc;
                    s.Expect((SizeT)n);
                }
                if (s.Capacity() < m.size() + n) cx.fail("capacity", "Expect(n) left Capacity() < Length()+n");
                break;
            }
            case T_RESERVE: {
                size_t n = big ? big : (size_t)((uint64_t)op.a[2] % 40);
                {
                    LibCall lc;
                    s.Reserve((SizeT)n);
                }
                m.clear();
                if (s.Capacity() < n) cx.fail("capacity", "Reserve(n) left Capacity() < n");
                break;
            }
            case T_DETACH: {
                C *ptr;
                {
                    LibCall lc;
                    ptr = s.Detach();
                }
                if (s.Storage() != nullptr || s.Length() != 0 || s.Capacity() != 0) cx.fail("detach", "stream not empty after Detach()");
                {
                    LibCall lc;
                    Qentem::Memory::Deallocate(ptr);
                }
                m.clear();
                break;
            }
            case T_GETSTRING: {
                ArenaObj<Str> r;
                {
                    LibCall lc;
                    new (r.p) Str(s.GetString());
                }
                {
                    StrW<C> tmp_checker(cx); // reuse the string checker
                    tmp_checker.check_one(*r, m, "GetString");
                    tmp_checker.teardown();
                }
                m.clear();
                {
                    LibCall lc;
                    r->~Str();
                }
                break;
            }
            case T_GETVIEW: {
                const C *vp;
                size_t   vl;
                {
                    LibCall lc;
                    View    v = s.GetStringView();
                    vp        = v.First();
                    vl        = v.Length();
                }
                U32 got;
                if (vl != m.size() || !read_units(vp, vl + 1, got, "view")) {
                    cx.fail("getview", "GetStringView() length/buffer wrong");
                    break;
                }
                if (got[vl] != 0) cx.fail("terminator", "GetStringView(): no NUL at [Length()]");
                got.resize(vl);
                if (got != m) cx.fail("content", "GetStringView() content differs");
                break;
            }
            case T_INSERTNULL: {
                {
                    LibCall lc;
                    s.InsertNull();
                }
                if (!qsim::readable(s.Storage(), (m.size() + 1) * sizeof(C)) || s.Storage()[m.size()] != 0)
                    cx.fail("terminator", "InsertNull(): no NUL at [Length()]");
                break;
            }
            default: break;
        }
    }

    void add_view_char(Stm &s, U32 &m, const U32 &txt);
};

template <typename C>
void StmW<C>::add_view_char(Stm &, U32 &, const U32 &) {
}
template <>
void StmW<char>::add_view_char(Stm &s, U32 &m, const U32 &txt) {
    ArenaText<char> t(txt);
    note_growth(s, txt.size());
    LibCall                  lc;
    Qentem::StringView<char> v{(const char *)t.ptr, (SizeT)t.len};
    s += v;
    m += txt;
}

// ------------------------------------------------------------------------------------------------
// StringView<C>
// ------------------------------------------------------------------------------------------------
enum ViewOp { V_REINIT = 0, V_CTOR_PTR_LEN, V_CTOR_CSTR, V_COPY_CTOR, V_MOVE_CTOR, V_COPY_ASSIGN, V_MOVE_ASSIGN, V_ASSIGN_CSTR, V_CMP_VIEW, V_CMP_CSTR, V_ISEQUAL, V_RESET, V_COUNT };
static const char *view_op_name[] = {"reinit", "ctor-ptr-len", "ctor-cstr", "copy-ctor", "move-ctor", "copy-assign",
                                     "move-assign", "assign-cstr", "compare-view", "compare-cstr", "isequal", "reset"};

template <typename C>
struct ViewW {
    using View             = Qentem::StringView<C>;
    static constexpr int K = 3;
    ArenaObj<View>       obj[K];
    U32                  model[K];
    std::vector<ArenaText<C> *> texts; // backing stores stay alive for the whole run
    Ctx                 &cx;

    explicit ViewW(Ctx &c) : cx(c) {
        LibCall lc;
        for (int i = 0; i < K; i++) new (obj[i].p) View();
    }
    void teardown() {
        {
            LibCall lc;
            for (int i = 0; i < K; i++) obj[i]->~View();
        }
        for (auto *t : texts) delete t;
        texts.clear();
    }
    void check() {
        for (int i = 0; i < K && !cx.failed; i++) {
            const View &v = *obj[i];
            if (v.Length() != model[i].size()) {
                cx.fail("length", "StringView length differs");
                return;
            }
            U32 got;
            if (!read_units(v.First(), v.Length(), got, "view-storage")) {
                cx.failed = true;
                return;
            }
            if (got != model[i]) {
                cx.fail("content", "StringView content differs");
                return;
            }
            if (v.End() != v.First() + v.Length() || v.IsEmpty() != (v.Length() == 0) ||
                v.Last() != (v.Length() ? v.First() + (v.Length() - 1) : nullptr)) {
                cx.fail("accessors", "End/Last/IsEmpty disagree with Length");
                return;
            }
            for (char32_t c : model[i]) qsim::obs((uint64_t)c);
        }
    }
    void cmp_check(const char *what, bool got, bool want) {
        if (got != want) cx.fail(what, std::string("comparison ") + what + " returned " + (got ? "true" : "false"));
    }
    void exec(const Op &op) {
        int   j    = (int)((uint64_t)op.a[0] % K);
        int   k    = (int)((uint64_t)op.a[1] % K);
        int   kind = (int)((uint64_t)op.kind % V_COUNT);
        U32   txt  = mask_units<C>(op.s.empty() ? U32() : unpack_units(op.s[0]));
        cx.opname  = view_op_name[kind];
        View &v = *obj[j];
        U32  &m = model[j];
        switch (kind) {
            case V_REINIT: {
                LibCall lc;
                new (&v) View();
                m.clear();
                break;
            }
            case V_CTOR_PTR_LEN: {
                texts.push_back(new ArenaText<C>(txt));
                LibCall lc;
                new (&v) View((const C *)texts.back()->ptr, (SizeT)txt.size());
                m = txt;
                break;
            }
            case V_CTOR_CSTR:
            case V_ASSIGN_CSTR: {
                U32 z = cut_at_nul(txt);
                texts.push_back(new ArenaText<C>(z, true));
                LibCall lc;
                if (kind == V_CTOR_CSTR)
                    new (&v) View((const C *)texts.back()->ptr);
                else
                    v = (const C *)texts.back()->ptr;
                m = z;
                break;
            }
            case V_COPY_CTOR: {
                if (j == k) break;
                LibCall lc;
                new (&v) View(*obj[k]);
                m = model[k];
                break;
            }
            case V_MOVE_CTOR: {
                if (j == k) break;
                LibCall lc;
                new (&v) View(static_cast<View &&>(*obj[k]));
                m = model[k];
                model[k].clear();
                break;
            }
            case V_COPY_ASSIGN: {
                LibCall lc;
                assign_in_own_unit(v, *obj[k]);
                if (j != k) m = model[k];
                break;
            }
            case V_MOVE_ASSIGN: {
                if (j == k) break;
                LibCall lc;
                assign_in_own_unit(v, static_cast<View &&>(*obj[k]));
                m = model[k];
                model[k].clear();
                break;
            }
            case V_CMP_VIEW: {
                const View &o = *obj[k];
                bool        eq, ne, lt, le, gt, ge;
                {
                    LibCall lc;
                    eq = (v == o);
                    ne = (v != o);
                    lt = (v < o);
                    le = (v <= o);
                    gt = (v > o);
                    ge = (v >= o);
                }
                int c = cmp_units<C>(m, model[k]);
                cmp_check("==", eq, c == 0);
                cmp_check("!=", ne, c != 0);
                cmp_check("<", lt, c < 0);
                cmp_check("<=", le, c <= 0);
                cmp_check(">", gt, c > 0);
                cmp_check(">=", ge, c >= 0);
                break;
            }
            case V_CMP_CSTR: {
                U32          z = cut_at_nul(txt);
                ArenaText<C> t(z, true);
                bool         eq, ne, lt, le, gt, ge;
                {
                    LibCall  lc;
                    const C *p = t.ptr;
                    eq = (v == p);
                    ne = (v != p);
                    lt = (v < p);
                    le = (v <= p);
                    gt = (v > p);
                    ge = (v >= p);
                }
                int c = cmp_units<C>(m, z);
                cmp_check("==cstr", eq, c == 0);
                cmp_check("!=cstr", ne, c != 0);
                cmp_check("<cstr", lt, c < 0);
                cmp_check("<=cstr", le, c <= 0);
                cmp_check(">cstr", gt, c > 0);
                cmp_check(">=cstr", ge, c >= 0);
                break;
            }
            case V_ISEQUAL: {
                U32          other = (op.a[3] & 1) ? m : txt;
                ArenaText<C> t(other);
                bool         r;
                {
                    LibCall lc;
                    r = v.IsEqual(t.ptr, (SizeT)t.len);
                }
                cmp_check("IsEqual", r, other == m);
                break;
            }
            case V_RESET: {
                LibCall lc;
                v.Reset();
                m.clear();
                break;
            }
            default: break;
        }
    }
};

// ------------------------------------------------------------------------------------------------
// Memory::Copy / Memory::SetToZero
// ------------------------------------------------------------------------------------------------
struct MemW {
    Ctx &cx;
    explicit MemW(Ctx &c) : cx(c) {
    }
    void teardown() {
    }
    void check() {
    }
    void exec(const Op &op) {
        size_t len  = (size_t)((uint64_t)op.a[2] % 4097);
        size_t doff = (size_t)((uint64_t)op.a[0] % 32), soff = (size_t)((uint64_t)op.a[1] % 32);
        bool   zero = (op.kind & 1) != 0;
        cx.opname   = zero ? "set-to-zero" : "copy";
        // the range ends exactly at the end of its block, so one byte too many is an exact monitor hit
        uint8_t *dst = (uint8_t *)qsim::alloc_block(doff + len, qsim::BK_OBJECT);
        uint8_t *src = (uint8_t *)qsim::alloc_block(soff + len, qsim::BK_INPUT);
        for (size_t i = 0; i < doff; i++) dst[i] = 0x5A;
        for (size_t i = 0; i < len; i++) dst[doff + i] = (uint8_t)(0xC3 ^ i);
        for (size_t i = 0; i < soff + len; i++) src[i] = (uint8_t)((i * 131 + (size_t)op.a[3]) | 1);
        {
            LibCall lc;
            if (zero)
                Qentem::Memory::SetToZero(dst + doff, (SizeT)len);
            else
                Qentem::Memory::Copy(dst + doff, src + soff, (SizeT)len);
        }
        for (size_t i = 0; i < doff; i++)
            if (dst[i] != 0x5A) {
                cx.fail("before", "bytes before the destination range were modified");
                break;
            }
        for (size_t i = 0; i < len && !cx.failed; i++) {
            uint8_t want = zero ? 0 : src[soff + i];
            if (dst[doff + i] != want) {
                cx.fail("content", "destination byte " + std::to_string(i) + " of " + std::to_string(len) + " wrong (dst misalign " +
                                       std::to_string(doff % 16) + ", src misalign " + std::to_string(soff % 16) + ")");
            }
        }
        qsim::obs(len * 31 + doff * 7 + soff);
        qsim::free_block(dst);
        qsim::free_block(src);
    }
};

// ------------------------------------------------------------------------------------------------
// generation
// ------------------------------------------------------------------------------------------------
static U32 gen_units(Rng &r, size_t maxlen, int width, bool allow_nul) {
    static const char32_t alpha[] = {'a', 'b', 'c', 'a', 'b', ' ', '\t', '\n', '\r', 'z', '0', '"', '\\', 0x7f, 0x80, 0xff,
                                     0x100, 0x7fff, 0x8000, 0xffff, 0x10000, 0x7fffffff, 0x80000000u, 0xffffffffu};
    size_t n = (size_t)r.below(maxlen + 1);
    if (r.chance(1, 12)) n = (size_t)r.below(maxlen * 6 + 1);
    U32 s;
    for (size_t i = 0; i < n; i++) {
        char32_t c;
        if (r.chance(3, 4))
            c = alpha[r.below(10)];
        else
            c = alpha[r.below(sizeof(alpha) / sizeof(alpha[0]))];
        if (allow_nul && r.chance(1, 40)) c = 0;
        char32_t mask = width == 1 ? 0xFFu : width == 2 ? 0xFFFFu : 0xFFFFFFFFu;
        c &= mask;
        if (!allow_nul && c == 0) c = 'q';
        s.push_back(c);
    }
    return s;
}

static void generate(Plan &plan, uint64_t seed, int tier) {
    Rng cfg(qsim::derive(seed, "cfg")), ops(qsim::derive(seed, "ops"));
    gen_heap_cfg(plan, cfg);
    int sub            = (int)cfg.below(SW_COUNT);
    plan.cfg["mode"]   = sub;
    int width          = (int)(cfg.below(3));
    plan.cfg["width"]  = width == 0 ? 1 : width == 1 ? 2 : 4;
    size_t nops        = 3 + (size_t)cfg.below(tier ? 90 : 45);
    if (cfg.chance(1, 3)) nops = 2 + (size_t)cfg.below(8); // many short histories
    int w = (int)plan.cfg["width"];
    // swarm: a random subset of operation kinds is emphasised
    uint64_t emphasis = cfg.next();
    for (size_t i = 0; i < nops; i++) {
        Op op;
        int span = sub <= SW_ARR_ARR ? A_COUNT : sub == SW_STRING ? S_COUNT : sub == SW_STREAM ? T_COUNT : sub == SW_VIEW ? V_COUNT : sub == SW_ARR_NODE ? N_COUNT : 2;
        do {
            op.kind = (int)ops.below((uint64_t)span);
        } while (span > 4 && ((emphasis >> (op.kind % 64)) & 1) == 0 && ops.chance(2, 3));
        op.a[0] = (int64_t)ops.below(3);
        op.a[1] = (int64_t)ops.below(3);
        if (ops.chance(1, 4)) op.a[1] = op.a[0]; // self operations on purpose
        op.a[2] = (int64_t)ops.below(64);
        op.a[3] = (int64_t)ops.below(1 << 16);
        op.a[4] = (int64_t)ops.below(4);
        if (sub == SW_ARR_NODE) {
            op.a[0] = (int64_t)ops.below(2);
            op.a[1] = (int64_t)ops.below(512);
            op.a[2] = (int64_t)ops.below(512);
            if (ops.chance(1, 3)) op.kind = N_ADD;
        }
        if (sub == SW_MEM) {
            op.a[0] = (int64_t)ops.below(32);
            op.a[1] = (int64_t)ops.below(32);
            uint64_t sel = ops.below(4);
            op.a[2] = (int64_t)(sel == 0 ? ops.below(40) : sel == 1 ? ops.below(300) : ops.below(4097));
        }
        if (sub >= SW_STRING && sub <= SW_VIEW) op.s.push_back(pack_units(gen_units(ops, 12, w, true)));
        if (sub == SW_STREAM && ops.chance(1, 500)) {
            static const int big_kinds[] = {T_WRITE, T_EXPECT, T_BUFFER, T_SETLENGTH, T_ADD_STR, T_SHL_VIEW, T_ASSIGN_VIEW};
            op.kind = big_kinds[ops.below(7)];
            op.a[5] = (int64_t)(65536 + ops.below(200000));
            if (ops.chance(1, 3)) {
                // a stream that already holds about 2^20 units, then one request for more than twice its capacity: the
                // sizes at which growth policies change their mind
                Op first   = op;
                first.kind = ops.chance(1, 2) ? T_WRITE : T_ADD_STR;
                first.a[5] = (int64_t)((1 << 20) - 2 + ops.below(5));
                if (ops.chance(2, 3)) {
                    // ... in a block of exactly that size (constructor), so that the stream is full to the brim
                    Op ctor   = op;
                    ctor.kind = T_CTOR_SIZE;
                    ctor.a[5] = first.a[5] + (int64_t)ops.below(2);
                    plan.ops.push_back(ctor);
                }
                plan.ops.push_back(first);
                op.a[0] = first.a[0];
                op.a[5] = (int64_t)((1 << 20) + (1 << 19) + ops.below(600000));
                plan.ops.push_back(op);
                plan.cfg["soft_budget"] = 1; // megabytes copied by a scalar byte loop: heavy, not hung
                break; // (the history ends here: every further step would compare megabytes again)
            }
        }
        plan.ops.push_back(op);
    }
}

template <typename W>
static void drive(Plan &plan, Ctx &cx, size_t &executed) {
    W *w = new W(cx);
    for (auto &op : plan.ops) {
        if (cx.failed || qsim::run_aborted()) break;
        w->exec(op);
        executed++;
        if (!cx.failed) w->check();
    }
    w->teardown();
    delete w;
}

static bool execute(Plan &plan) {
    size_t executed = 0;
    Ctx    cx;
    int    sub   = (int)((uint64_t)plan.get("mode", 0) % SW_COUNT);
    int    width = (int)plan.get("width", 1);
    cx.sub       = sw_name[sub];
    qsim::run_single([&]() {
        switch (sub) {
            case SW_ARR_SIZET: drive<ArrW<SizeT>>(plan, cx, executed); break;
            case SW_ARR_POD: drive<ArrW<Pod24>>(plan, cx, executed); break;
            case SW_ARR_STR: drive<ArrW<Qentem::String<char>>>(plan, cx, executed); break;
            case SW_ARR_ARR: drive<ArrW<Qentem::Array<SizeT>>>(plan, cx, executed); break;
            case SW_STRING:
                if (width == 1) drive<StrW<char>>(plan, cx, executed);
                else if (width == 2) drive<StrW<char16_t>>(plan, cx, executed);
                else drive<StrW<char32_t>>(plan, cx, executed);
                break;
            case SW_STREAM:
                if (width == 1) drive<StmW<char>>(plan, cx, executed);
                else if (width == 2) drive<StmW<char16_t>>(plan, cx, executed);
                else drive<StmW<char32_t>>(plan, cx, executed);
                break;
            case SW_VIEW:
                if (width == 1) drive<ViewW<char>>(plan, cx, executed);
                else if (width == 2) drive<ViewW<char16_t>>(plan, cx, executed);
                else drive<ViewW<char32_t>>(plan, cx, executed);
                break;
            case SW_ARR_NODE: drive<NodeW>(plan, cx, executed); break;
            default: drive<MemW>(plan, cx, executed); break;
        }
        if (!qsim::run_aborted()) qsim::check_leaks("seq");
    });
    return executed >= 5;
}

static const char *props(const std::string &cls) {
    if (cls == "leak" || cls == "ledger-mismatch") return "C16";
    if (cls == "uaf-read" || cls == "uaf-write" || cls == "double-free" || cls == "bad-free") return "C14,C16";
    return "C14";
}

// ------------------------------------------------------------------------------------------------
// memsweep: complete enumeration of Memory::Copy / Memory::SetToZero over every length 0..4096 for one
// (destination misalignment, source misalignment) pair per run; run index i covers pair (i % 32, (i / 32) % 32),
// so 1024 consecutive indices cover all pairs in the build under test.
// ------------------------------------------------------------------------------------------------
static void generate_sweep(Plan &plan, uint64_t seed, int) {
    Rng cfg(qsim::derive(seed, "cfg"));
    gen_heap_cfg(plan, cfg, true);
    uint64_t idx      = (uint64_t)plan.get("run_index", 0);
    plan.cfg["mode"]  = SW_MEM;
    plan.cfg["width"] = 1;
    Op op;
    op.kind = 2; // sweep
    op.a[0] = (int64_t)(idx % 32);
    op.a[1] = (int64_t)((idx / 32) % 32);
    op.a[3] = (int64_t)cfg.below(256);
    plan.ops.push_back(op);
}
static bool execute_sweep(Plan &plan) {
    Ctx cx;
    cx.sub = "memsweep";
    size_t cases = 0;
    qsim::run_single([&]() {
        MemW w(cx);
        for (auto &op : plan.ops) {
            for (int64_t len = 0; len <= 4096 && !cx.failed && !qsim::run_aborted(); len++) {
                for (int zero = 0; zero < 2 && !cx.failed; zero++) {
                    Op one   = op;
                    one.kind = zero;
                    one.a[2] = len;
                    w.exec(one);
                    cases++;
                }
            }
        }
        if (!qsim::run_aborted()) qsim::check_leaks("memsweep");
    });
    qsim::probe("memsweep.pair-runs");
    qsim::probe("memsweep.cases", cases);
    return cases > 0;
}

static const qsim::World world       = {"seq", generate, execute, props};
static const qsim::World world_sweep = {"memsweep", generate_sweep, execute_sweep, props};
QSIM_REGISTER_WORLD(world)
QSIM_REGISTER_WORLD(world_sweep)

} // namespace seq
} // namespace qw
QH_END
