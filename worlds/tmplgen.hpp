// Generator of value forests and of well-formed templates (documented grammar, every tag kind) whose variables
// resolve in those values. Plain C++.
#ifndef QSIM_TMPLGEN_HPP
#define QSIM_TMPLGEN_HPP

#include "docmodel.hpp"
#include "../sim/rt.hpp"

#include <cstdio>

namespace qw {

// keys that land in ONE bucket chain of a small table (filled by the render world from the library's own hash function
// before the first generation; empty = feature off)
inline std::vector<std::string> &colliding_keys() {
    static std::vector<std::string> k;
    return k;
}

inline U32 A(const char *s) {
    U32 o;
    while (*s) o.push_back((char32_t)(unsigned char)*s++);
    return o;
}
inline U32 A(const std::string &s) {
    return A(s.c_str());
}

// ------------------------------------------------------------------------------------------------
// values
// ------------------------------------------------------------------------------------------------
struct ValueGen {
    qsim::Rng &r;
    explicit ValueGen(qsim::Rng &rng) : r(rng) {
    }
    Node scalar() {
        switch (r.below(9)) {
            case 0: return Node::mku(r.below(1000));
            case 1: return Node::mki(-(int64_t)r.below(500));
            case 2: {
                static const double d[] = {0.5, 2.25, 3.8, 2.4, 11150.001, -7.125, 1e10, 0.001};
                return Node::mkd(d[r.below(8)]);
            }
            case 3: return Node::mk(r.chance(1, 2) ? Node::True : Node::False);
            case 4: return Node::mk(Node::Null);
            case 5: {
                static const char *s[] = {"42", "0", "-3", "7.5", "1e3", "true", "false"};
                return Node::mks(A(s[r.below(7)]));
            }
            case 6: {
                static const char *s[] = {"<b>bold</b>", "a & b", "it's \"q\"", "&amp; &lt;x&gt;", "x<y>z'\"&", "&", "&am", "&amp", "&#39;"};
                return Node::mks(A(s[r.below(9)]));
            }
            default: {
                static const char *s[] = {"Qentem", "alpha", "beta", "", "ab", "abc", "Zed", "hello world", "x"};
                return Node::mks(A(s[r.below(9)]));
            }
        }
    }
    Node record(int variant) {
        Node o = Node::mk(Node::Object);
        // member order varies between records on purpose, and so does the member count: a record may lack any
        // member (also the one a group= attribute names), may be empty, and may carry a nested list
        static const char *keys[] = {"year", "month", "name", "v"};
        int                order[4] = {0, 1, 2, 3};
        if (variant & 1) std::swap(order[0], order[2]);
        if (variant & 2) std::swap(order[1], order[3]);
        size_t keep = 4;
        if (r.chance(1, 4)) keep = (size_t)r.below(5); // ragged records: 0..4 leading members only
        for (size_t i = 0; i < keep; i++) {
            int k = order[i];
            if (k == 3 && r.chance(1, 4)) continue;
            Node v;
            if (k == 0)
                v = r.chance(1, 6) ? Node::mks(A("2020")) : Node::mku(2017 + r.below(4));
            else if (k == 1)
                v = Node::mku(1 + r.below(12));
            else
                v = scalar();
            o.get_or_add(A(keys[k])) = v;
        }
        if (r.chance(1, 2)) {
            Node   tags = Node::mk(Node::Array);
            size_t n    = (size_t)r.below(5);
            for (size_t i = 0; i < n; i++) tags.items.push_back(r.chance(1, 2) ? Node::mku(r.below(50)) : scalar());
            o.get_or_add(A("tags")) = tags;
        }
        return o;
    }
    Node root(bool as_array) {
        Node n = Node::mk(as_array ? Node::Array : Node::Object);
        auto add = [&](const char *key, const Node &v) {
            if (as_array)
                n.items.push_back(v);
            else
                n.get_or_add(A(key)) = v;
        };
        add("name", Node::mks(A("Qentem")));
        add("n1", Node::mku(r.below(100)));
        add("n2", Node::mki(-(int64_t)r.below(50)));
        add("d1", scalar());
        add("t", Node::mk(Node::True));
        add("f", Node::mk(Node::False));
        add("nul", Node::mk(Node::Null));
        add("html", Node::mks(A("<a href=\"x\">&'</a>")));
        add("zero", Node::mku(0));
        if (!as_array && r.chance(1, 2)) n.get_or_add(A("k]")) = scalar(); // a key that ends like an index suffix
        add("msg", Node::mks(A(r.chance(1, 2) ? "Hi {0}, {1} and {2}{0}." : "{1}{9}{0} {x} {} {10} {0")));
        {
            Node   list = Node::mk(Node::Array);
            size_t k    = (size_t)r.below(7);
            for (size_t i = 0; i < k; i++) list.items.push_back(scalar());
            add("list", list);
        }
        {
            Node   objs = Node::mk(Node::Array);
            size_t k    = (size_t)r.below(6);
            for (size_t i = 0; i < k; i++) objs.items.push_back(record((int)r.below(4)));
            add("objs", objs);
        }
        {
            Node nest = Node::mk(Node::Object);
            size_t k  = (size_t)r.below(4);
            for (size_t i = 0; i < k; i++) {
                char key[8];
                snprintf(key, sizeof key, "g%zu", i);
                Node   inner = Node::mk(r.chance(1, 2) ? Node::Array : Node::Object);
                size_t m     = (size_t)r.below(4);
                for (size_t j = 0; j < m; j++) {
                    if (inner.kind == Node::Array)
                        inner.items.push_back(scalar());
                    else {
                        char ik[8];
                        snprintf(ik, sizeof ik, "i%zu", j);
                        inner.get_or_add(A(ik)) = scalar();
                    }
                }
                nest.get_or_add(A(key)) = inner;
            }
            add("nest", nest);
        }
        {
            // an object whose keys all collide: lookups walk a long chain (what a self-organising table would reorder)
            Node coll = Node::mk(Node::Object);
            for (auto &k : colliding_keys()) coll.get_or_add(A(k)) = scalar();
            add("coll", coll);
        }
        {
            Node one = Node::mk(Node::Array); // exactly one item: loops over it can nest hundreds deep at linear cost
            one.items.push_back(scalar());
            add("one", one);
        }
        // a mismatching value: wrong kinds under the same names / positions
        if (r.chance(1, 4)) {
            if (as_array) {
                if (!n.items.empty()) n.items[r.below(n.items.size())] = scalar();
            } else if (!n.members.empty())
                n.members[r.below(n.members.size())].second = scalar();
        }
        return n;
    }
};

// canonical JSON text of a model tree (ASCII, every non-ASCII / special unit escaped)
inline void to_json(const Node &n, U32 &o) {
    auto str = [&](const U32 &s) {
        o.push_back('"');
        for (char32_t c : s) {
            if (c == '"' || c == '\\') {
                o.push_back('\\');
                o.push_back(c);
            } else if (c < 0x20 || c >= 0x7f) {
                char b[8];
                snprintf(b, sizeof b, "\\u%04x", (unsigned)(c & 0xFFFF));
                o += A(b);
            } else
                o.push_back(c);
        }
        o.push_back('"');
    };
    char b[64];
    switch (n.kind) {
        case Node::Object: {
            o.push_back('{');
            bool first = true;
            for (auto &m : n.members) {
                if (m.second.kind == Node::Undefined) continue;
                if (!first) o.push_back(',');
                first = false;
                str(m.first);
                o.push_back(':');
                to_json(m.second, o);
            }
            o.push_back('}');
            break;
        }
        case Node::Array: {
            o.push_back('[');
            bool first = true;
            for (auto &it : n.items) {
                if (it.kind == Node::Undefined) continue;
                if (!first) o.push_back(',');
                first = false;
                to_json(it, o);
            }
            o.push_back(']');
            break;
        }
        case Node::String: str(n.str); break;
        case Node::UInt:
            snprintf(b, sizeof b, "%llu", (unsigned long long)n.u);
            o += A(b);
            break;
        case Node::Int:
            snprintf(b, sizeof b, "%lld", (long long)n.i);
            o += A(b);
            break;
        case Node::Double:
            snprintf(b, sizeof b, "%.17g", n.d);
            o += A(b);
            if (o.find_first_of(U".eE", o.size() - strlen(b)) == U32::npos) o += A(".0");
            break;
        case Node::True: o += A("true"); break;
        case Node::False: o += A("false"); break;
        default: o += A("null");
    }
}

// ------------------------------------------------------------------------------------------------
// templates
// ------------------------------------------------------------------------------------------------
struct TemplateGen {
    qsim::Rng               &r;
    bool                     root_is_array;
    std::vector<std::string> loop_vars; // names of enclosing loop values
    std::vector<int>         loop_kind; // 0 scalar item, 1 record item, 2 container item
    size_t                   budget;
    int                      uid{0};

    TemplateGen(qsim::Rng &rng, bool root_array, size_t tags) : r(rng), root_is_array(root_array), budget(tags) {
    }

    // names as they are written in a tag: keys for object roots, positions for array roots
    std::string top(const char *key) {
        static const char *order[] = {"name", "n1", "n2", "d1", "t", "f", "nul", "html", "zero", "msg", "list", "objs", "nest", "coll", "one"};
        if (!root_is_array) return key;
        for (size_t i = 0; i < 15; i++)
            if (strcmp(order[i], key) == 0) return std::to_string(i);
        return "99";
    }
    std::string scalar_path() {
        // enclosing loop values first
        if (!loop_vars.empty() && r.chance(1, 2)) {
            size_t i = (size_t)r.below(loop_vars.size());
            if (loop_kind[i] == 1) {
                static const char *k[] = {"year", "month", "name", "v", "nope"};
                return loop_vars[i] + "[" + k[r.below(5)] + "]";
            }
            if (loop_kind[i] == 2 && r.chance(1, 2)) return loop_vars[i] + "[" + std::to_string(r.below(3)) + "]";
            if (r.chance(1, 16)) return loop_vars[i] + "]"; // an index suffix without its prefix
            return loop_vars[i];
        }
        if (r.chance(1, 24)) {
            static const char *odd[] = {"k]", "k]]", "[k]", "k[", "k][", "]", "[", "[]", "k[]", "list[]", "list[0", "list[0]]", "name[0][", "nest[g0]["};
            return odd[r.below(14)];
        }
        switch (r.below(12)) {
            case 0: return top("name");
            case 1: return top("n1");
            case 2: return top("n2");
            case 3: return top("d1");
            case 4: return top("t");
            case 5: return top("html");
            case 6: return top("list") + "[" + std::to_string(r.below(4)) + "]";
            case 7: return top("objs") + "[" + std::to_string(r.below(3)) + "][name]";
            case 8: return top("nest") + "[g" + std::to_string(r.below(3)) + "][" + (r.chance(1, 2) ? "i0" : "0") + "]";
            case 9:
                if (!colliding_keys().empty() && r.chance(2, 3)) {
                    auto &ck = colliding_keys();
                    // mostly the keys at the far end of the chain
                    size_t at = r.chance(2, 3) ? ck.size() - 1 - (size_t)r.below(3) : (size_t)r.below(ck.size());
                    return top("coll") + "[" + ck[at] + "]";
                }
                return "missing";
            case 10: return top("nul");
            default: return top("zero");
        }
    }
    std::string number() {
        if (r.chance(1, 6)) {
            // operands at the edges of the three number kinds (natural, integer, real) and just beside the values
            // guards are written for (-1, 0, 1)
            static const char *edge[] = {"-9223372036854775808", "9223372036854775807", "9223372036854775808", "18446744073709551615",
                                         "18446744073709551616", "-9223372036854775809", "-1", "-1.0", "-1.5", "-0.5", "0.5", "1.5", "-0", "0.0",
                                         "1e19", "-1e19", "1e30", "-1e30", "1e308", "1e-320", "4294967295", "4294967296", "2147483648", "-2147483649",
                                         "9007199254740993", "1.9999999999999999", "0.9999999999999999", "-0.9999999999999999", "64", "63", "-63"};
            return edge[r.below(sizeof(edge) / sizeof(edge[0]))];
        }
        switch (r.below(8)) {
            case 0: return "0";
            case 1: return std::to_string(r.below(10));
            case 2: return std::to_string(r.below(1000));
            case 3: return "2.5";
            case 4: return "-" + std::to_string(1 + r.below(9));
            case 5: return "1e2";
            case 6: return "0.001";
            default: return std::to_string(r.below(100000));
        }
    }
    std::string operand(int depth) {
        uint64_t k = r.below(10);
        if (k < 4) return number();
        if (k < 8) return "{var:" + scalar_path() + "}";
        if (depth > 0) return "(" + expr(depth - 1) + ")";
        return number();
    }
    std::string expr(int depth) {
        static const char *ops[] = {"+", "-", "*", "/", "%", "^", "&&", "||", "==", "!=", "<", "<=", ">", ">=", "&", "|"};
        std::string        e     = operand(depth);
        size_t             n     = (size_t)r.below(4);
        for (size_t i = 0; i < n; i++) {
            const char *op = ops[r.below(16)];
            bool        sp = r.chance(1, 2);
            e += (sp ? " " : "");
            e += op;
            e += (sp ? " " : "");
            e += operand(depth);
        }
        return e;
    }
    std::string text() {
        static const char *t[] = {"", " ", "\n", "abc", "Hello, ", " - ", "<b>", "</b>", "<div class=\"x\">", "</div>", "{", "}", "<", ">", "{v", "<l",
                                  "<br/>", "text with 'quotes' & \"more\"", "\t", "0123456789", "{ var:x }", "</", "<i", "{m"};
        std::string        s;
        size_t             n = 1 + (size_t)r.below(3);
        for (size_t i = 0; i < n; i++) s += t[r.below(r.chance(4, 5) ? 10 : 24)];
        return s;
    }
    std::string inline_value(char quote) {
        // content of true="..." / false="...": text and variable / raw / math tags, no quote of the same kind
        std::string s;
        size_t      n = 1 + (size_t)r.below(3);
        for (size_t i = 0; i < n; i++) {
            switch (r.below(5)) {
                case 0: s += "{var:" + scalar_path() + "}"; break;
                case 1: s += "{raw:" + scalar_path() + "}"; break;
                case 2: s += "{math:" + expr(0) + "}"; break;
                default: s += (r.chance(1, 2) ? "yes" : "no ");
            }
        }
        std::string o;
        for (char c : s)
            if (c != quote) o.push_back(c);
        return o;
    }
    // filler between a tag keyword and its attributes: offsets stored in 8 / 16 bit fields wrap beyond 255 / 65535
    std::string pad() {
        uint64_t k = r.below(400);
        if (k == 0) return std::string(66000, ' ');
        if (k < 12) return std::string(260 + (size_t)r.below(200), ' ');
        if (k < 60) return std::string(1 + (size_t)r.below(3), ' ');
        return "";
    }
    std::string tag(int depth) {
        if (budget > 0) budget--;
        uint64_t k = r.below(depth > 0 && budget > 0 ? 12 : 8);
        char     q = r.chance(1, 2) ? '"' : '\'';
        switch (k) {
            case 0:
            case 1: return "{var:" + scalar_path() + "}";
            case 2: return "{raw:" + scalar_path() + "}";
            case 3:
            case 4: return "{math:" + std::string(r.chance(1, 3) ? " " : "") + expr(2) + "}";
            case 5: {
                std::string s = "{svar:" + top("msg");
                size_t      n = (size_t)r.below(4);
                for (size_t i = 0; i < n; i++) {
                    s += r.chance(1, 2) ? ", " : ",";
                    switch (r.below(3)) {
                        case 0: s += "{var:" + scalar_path() + "}"; break;
                        case 1: s += "{raw:" + scalar_path() + "}"; break;
                        default: s += "{math:" + expr(0) + "}";
                    }
                }
                return s + "}";
            }
            case 6:
            case 7: {
                std::string s = "{if " + pad() + "case=" + std::string(1, q) + expr(1) + q;
                bool        tfirst = r.chance(2, 3);
                for (int part = 0; part < 2; part++) {
                    bool is_true = (part == 0) == tfirst;
                    if (r.chance(1, 5)) continue;
                    s += std::string(" ") + (is_true ? "true=" : "false=") + q + inline_value(q) + q;
                }
                return s + "}";
            }
            case 8:
            case 9: {
                std::string s = "<if " + pad() + "case=" + std::string(1, q) + expr(1) + q + ">" + block(depth - 1);
                size_t      n = (size_t)r.below(3);
                for (size_t i = 0; i < n; i++) {
                    static const char *forms[] = {"<else if case=", "<elseif case="};
                    s += forms[r.below(2)] + std::string(1, q) + expr(1) + q + (r.chance(1, 3) ? " />" : ">") + block(depth - 1);
                }
                if (r.chance(1, 2)) {
                    if (r.chance(1, 8)) {
                        // something between "<else" and its '>': attributes nobody defined, or another tag's opening
                        static const char *junk[] = {" {var:", " {raw:", " {math:1+", " {svar:", " <loop value=\"z\"", " x=\"y\"", " {", " case=\"1\"", " {var:name}", " {math:2*2} "};
                        std::string        j      = junk[r.below(sizeof(junk) / sizeof(junk[0]))];
                        if (j.back() == ':') j += scalar_path() + "}";
                        if (j.back() == '+') j += "1}";
                        s += "<else" + j + ">" + block(depth - 1);
                    } else
                        s += std::string(r.chance(1, 2) ? "<else>" : "<else />") + block(depth - 1);
                }
                return s + "</if>";
            }
            default: {
                // loop
                std::string name = "v" + std::to_string(uid++) + (r.chance(1, 5) ? "-long-loop-value-name" : "");
                std::string set;
                int         kind = 0;
                bool        group = false, sort = false;
                uint64_t    which = r.below(8);
                if (!loop_vars.empty() && r.chance(1, 3)) {
                    // a set rooted at the value of ANY enclosing loop (grand-parents included), possibly a member of it
                    size_t a = (size_t)r.below(loop_vars.size());
                    set      = loop_vars[a];
                    kind     = 0;
                    if (loop_kind[a] == 1) {
                        if (r.chance(2, 3)) set += "[tags]";
                        sort = r.chance(1, 2);
                    } else if (loop_kind[a] == 2) {
                        if (r.chance(1, 3)) {
                            set += "[" + std::to_string(r.below(3)) + "]";
                            kind = 1;
                        } else
                            kind = 1; // items of a group are records
                        sort = r.chance(1, 3);
                    }
                } else if (!loop_vars.empty() && loop_kind.back() == 2 && r.chance(2, 3)) {
                    set  = loop_vars.back();
                    kind = 0;
                } else if (!loop_vars.empty() && loop_kind.back() == 1 && r.chance(1, 3)) {
                    set  = loop_vars.back();
                    kind = 0;
                } else if (which < 2) {
                    set  = top("list");
                    kind = 0;
                    sort = r.chance(1, 2);
                } else if (which < 5) {
                    set   = top("objs");
                    kind  = 1;
                    group = r.chance(1, 3);
                    sort  = r.chance(1, 3);
                    if (group) kind = 2; // grouped: items are arrays of records
                } else if (which < 7) {
                    set  = top("nest");
                    kind = 2;
                    sort = r.chance(1, 4);
                } else {
                    set  = ""; // the root itself
                    kind = 0;
                }
                std::string s = "<loop" + pad();
                std::vector<std::string> atts;
                if (!set.empty()) atts.push_back(std::string("set=") + q + set + q);
                atts.push_back(std::string("value=") + q + name + q);
                if (group) {
                    static const char *gk[] = {"year", "year", "year", "name", "month", "v", "tags", "nope"};
                    atts.push_back(std::string("group=") + q + gk[r.below(8)] + q);
                }
                if (sort) atts.push_back(std::string("sort=") + q + (r.chance(1, 2) ? "ascend" : "descend") + q);
                if (r.chance(1, 4)) std::swap(atts[0], atts.back());
                for (auto &a : atts) s += " " + a;
                s += ">";
                loop_vars.push_back(name);
                loop_kind.push_back(kind);
                s += block(depth - 1);
                loop_vars.pop_back();
                loop_kind.pop_back();
                return s + "</loop>";
            }
        }
    }
    std::string block(int depth) {
        std::string s;
        size_t      n = 1 + (size_t)r.below(4);
        for (size_t i = 0; i < n; i++) {
            s += text();
            if (budget > 0) s += tag(depth);
        }
        s += text();
        return s;
    }
    // shapes beyond the 8-bit counters of the tag records: more than 255 enclosing tags around a loop, more than 255
    // sub-tags inside one inline if / super variable
    std::string deep_document() {
        std::string s, close;
        char        q = '"';
        if (r.chance(1, 2)) {
            // an earlier sorted / grouped loop at an outer level whose slot a wrapped level could alias
            s += "<loop set=" + std::string(1, q) + top("list") + q + " value=" + q + "e" + q + " sort=" + q + "ascend" + q + ">{var:e}</loop>";
        }
        bool   outer_loop = r.chance(1, 2);
        if (outer_loop) {
            // the enclosing loop runs over an array or over an object (members: key and value slots are refreshed per round)
            static const char *sets[] = {"list", "nest", "objs", "nest"};
            std::string        set    = top(sets[r.below(4)]);
            if (r.chance(1, 3) && set == top("objs")) set += "[0]";
            s += std::string("<loop set=") + q + set + q + " value=" + q + "a" + q + ">";
            close = "</loop>";
        }
        // mostly beyond the 8-bit counters; one time in three a moderate depth (12..40), where scratch arrays sized for
        // "typical" nesting have to grow in the middle of an enclosing iteration
        size_t n = r.chance(1, 3) ? 12 + (size_t)r.below(29) : 250 + (size_t)r.below(14);
        int    wrappers = 0; // each wrapper loop multiplies the work by the size of the root: keep the product small
        bool   all_loops = r.chance(1, 2); // loops over a one-item list: the loop depth itself passes 255
        for (size_t i = 0; i < n; i++) {
            if (all_loops) {
                s += std::string("<loop set=") + q + top("one") + q + " value=" + q + "x" + std::to_string(i) + q + ">";
                close = std::string(i == 0 ? "{var:x0}" : "") + "</loop>" + close;
            } else if (wrappers < 1 && r.chance(1, 40)) {
                wrappers++;
                s += "<loop value=" + std::string(1, q) + "w" + std::to_string(i) + q + ">";
                close = "</loop>" + close;
            } else {
                s += "<if case=" + std::string(1, q) + "1" + q + ">";
                close = "</if>" + close;
            }
        }
        s += std::string("<loop set=") + q + top("list") + q + " value=" + q + "b" + q + (r.chance(1, 2) ? std::string(" sort=") + q + "descend" + q : std::string()) + ">[{var:b}]</loop>";
        if (outer_loop) s += "[{var:a}]";
        if (all_loops) s += "{var:x" + std::to_string(n - 1) + "}{var:x" + std::to_string(n / 2) + "}";
        return s + close;
    }
    std::string many_subtags_document() {
        size_t      n = 250 + (size_t)r.below(14);
        char        q = r.chance(1, 2) ? '"' : '\'';
        std::string t, f;
        for (size_t i = 0; i < n; i++) t += (i % 3 == 0) ? "{var:" + top("name") + "}" : (i % 3 == 1) ? "{raw:" + top("n1") + "}" : "{math:1+" + std::to_string(i) + "}";
        f = "{var:" + top("n2") + "}";
        std::string cond = r.chance(1, 2) ? "{var:" + top("zero") + "}" : "{var:" + top("t") + "}";
        std::string s = "{if case=" + std::string(1, q) + cond + q;
        if (r.chance(1, 2))
            s += std::string(" true=") + q + t + q + " false=" + q + f + q + "}";
        else
            s += std::string(" false=") + q + f + q + " true=" + q + t + q + "}";
        if (r.chance(1, 2)) {
            s += "{svar:" + top("msg");
            for (size_t i = 0; i < n; i++) s += ",{var:" + top("name") + "}";
            s += "}";
        }
        return s;
    }
    // markup fragments in any order: what a half-edited template looks like. Tags open inside unfinished tags,
    // closers meet the wrong opener, attribute quotes pair up across tags.
    std::string soup_document() {
        static const char *frag[] = {"{if", "{if ", "case=", " case=\"", " case='", "true=", " true=\"", " false='", "false=", "{svar:", "{var:", "{raw:", "{math:",
                                     "<if", "<if ", "<if case=\"", "<loop", "<loop ", " value=\"", " value='", "set=\"", " sort=\"ascend\"", " group=\"",
                                     "<else", "<else>", "<else />", "<elseif", "<elsei", "<elseif case=\"", "</if>", "</loop>", ">", "}", "\"", "'", ",", " ", "f",
                                     "1", "0", "==", "+", "(", ")", "[", "]", "v", "x"};
        const size_t nfrag = sizeof(frag) / sizeof(frag[0]);
        std::string  s;
        size_t       n = 3 + (size_t)r.below(24);
        for (size_t i = 0; i < n; i++) {
            uint64_t k = r.below(10);
            if (k < 7)
                s += frag[r.below(nfrag)];
            else if (k == 7)
                s += scalar_path();
            else if (k == 8)
                s += top(r.chance(1, 2) ? "list" : "name");
            else if (budget > 0)
                s += tag(1);
        }
        return s;
    }
    // block tags opened inside an inline tag that is still open, then closers and else-branches that no longer
    // match what the parser has on its stack
    std::string misnested_document() {
        char        q  = r.chance(1, 2) ? '"' : '\'';
        std::string Q(1, q);
        std::string s = text();
        if (r.chance(1, 3)) s += "<loop set=" + Q + top("list") + Q + " value=" + Q + "o" + Q + ">";
        if (r.chance(1, 2))
            s += "{if case=" + Q + expr(1) + Q + (r.chance(1, 2) ? " true=" : " false=") + Q;
        else if (r.chance(1, 2))
            s += "{if case=f"; // the quote of the case is a letter: it ends inside a later tag name
        else
            s += "{svar:" + top("msg") + ",";
        auto inner = [&]() -> std::string {
            switch (r.below(8)) {
                case 0: return "<if case=" + Q + "1" + Q + ">";
                case 1: return "<if";
                case 2: return "<loop value=" + Q + "m" + Q + ">";
                case 3: return "<loop>";
                case 4: return "<loop set=" + Q + top("list") + Q + " value=" + Q + "m" + Q + " sort=" + Q + "ascend" + Q + ">";
                case 5: return "{var:m}";
                case 6: return "{var:" + top("name") + "}";
                default: return text();
            }
        };
        size_t n = 1 + (size_t)r.below(4);
        for (size_t i = 0; i < n; i++) s += inner();
        if (r.chance(1, 2)) s += Q;
        s += "}";
        auto outer = [&]() -> std::string {
            switch (r.below(12)) {
                case 0: return "<else>";
                case 1: return "<elsei>";
                case 2: return "<elseif case=" + Q + "1" + Q + ">";
                case 3: return "</if>";
                case 4: return "</loop>";
                case 5: return "<loop value=" + Q + "w" + Q + ">";
                case 6: return "<loop{var:" + Q + "}";
                case 7: return "{var:m}";
                case 8: return "{var:w}{math:{var:m}+1}";
                case 9: return "}";
                case 10: return budget > 0 ? tag(1) : text();
                default: return text();
            }
        };
        n = 1 + (size_t)r.below(6);
        for (size_t i = 0; i < n; i++) s += outer();
        return s;
    }
    // no tag at all: 0..600 units of text that cannot start one (no '{', no '<')
    std::string plain_document() {
        static const char *words[] = {"Hello", "world", "a>b", "}", "x = y", "&amp;", "100%", "\n", "\"quoted\"", "if case", "loop", "/>", "]", "  "};
        std::string        s;
        size_t             target = r.chance(1, 3) ? (size_t)r.below(64) : 64 + (size_t)r.below(540);
        while (s.size() < target) {
            s += words[r.below(sizeof(words) / sizeof(words[0]))];
            s += ' ';
        }
        return s;
    }
    std::string document(int depth) {
        if (r.chance(1, 30)) return plain_document();
        if (r.chance(1, 12)) return soup_document();
        if (r.chance(1, 12)) return misnested_document();
        if (r.chance(1, 40)) return text() + deep_document() + text();
        if (r.chance(1, 50)) return text() + many_subtags_document() + text();
        return block(depth);
    }
};

// positions inside a template where storage faults are most telling
inline std::vector<size_t> template_boundaries(const U32 &t) {
    std::vector<size_t> b;
    for (size_t i = 0; i < t.size(); i++) {
        char32_t c = t[i];
        if (c == '{' || c == '}' || c == '<' || c == '>' || c == '"' || c == '\'' || c == ':' || c == '=' || c == '[' || c == ']' || c == ',' || c == '/') {
            b.push_back(i);
            b.push_back(i + 1);
        }
    }
    return b;
}

} // namespace qw

#endif
