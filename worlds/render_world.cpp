// render_world: two worlds over the template engine.
//   "render"     (C01, cache-reuse part of C17, feeds C16): a template store whose texts reach the renderer through
//                the faulty channel in exact-size buffers; rendered against matching / mismatching / Undefined values;
//                fresh, cached, repeated, copied-cache and moved-cache renders must agree byte for byte.
//   "renderconc" (C17): N simulated caller threads render through ONE shared parsed tag cache and shared values under
//                the seeded scheduler; outputs must equal fresh single renders, nothing shared may be written, no races.
#include "common.hpp"
#include <map>
#include "channel.hpp"
#include "tmplgen.hpp"
#include "valueread.hpp"

QH_BEGIN
namespace qw {
namespace renderw {

using Qentem::SizeT;
using qsim::LibCall;

enum ROp { R_VALUE = 0, R_TEMPLATE, R_FAULT, R_RENDER, R_TASK, R_TASKRENDER, R_COUNT };

// Some members of a value handed to the renderer become POINTERS to values held elsewhere (SetPointerToValue): the
// caller's data is then spread over several objects, all of which a render may only read. 'sel' picks up to two
// members of the root (4 bits each, 0 = none).
template <typename VT>
static void make_pointer_members(VT &root, uint64_t sel, std::vector<ArenaObj<VT> *> &pointees) {
    for (int k = 0; k < 2 && sel != 0; k++, sel /= 16) {
        uint64_t pick = sel % 16;
        if (pick == 0) continue;
        VT *child = nullptr;
        {
            LibCall lc;
            if (!(root.IsObject() || root.IsArray())) return;
            Qentem::SizeT n = root.Size();
            if (n == 0) return;
            child = root.GetValue((Qentem::SizeT)(pick % n));
            if (child == nullptr || child->IsUndefined()) continue;
        }
        auto *p = new ArenaObj<VT>(); // (harness allocations stay outside the library-call bracket)
        pointees.push_back(p);
        {
            LibCall lc;
            new (p->p) VT(static_cast<VT &&>(*child));
            child->SetPointerToValue(p->p);
        }
        qsim::probe("render.value-with-pointer-member");
    }
}

struct Ctx {
    int    width{1};
    size_t renders{0};
    size_t faults_fired{0};
    bool   failed{false};
    void   fail(const char *cls, const std::string &key, const std::string &detail) {
        qsim::report(cls, key, detail);
        failed = true;
    }
};

template <typename C>
struct RenderW {
    using VT   = Qentem::Value<C>;
    using Stm  = Qentem::StringStream<C>;
    using Tags = Qentem::Array<Qentem::Tags::TagBit>;
    using TC   = Qentem::TemplateCore<C, VT, Stm>;

    Ctx                        &cx;
    U32                         tmpl;
    std::vector<Fault>          pending;
    std::vector<ArenaObj<VT> *> values;
    std::vector<ArenaObj<VT> *> pointees; // targets of pointer members (owned here, not by the values)

    explicit RenderW(Ctx &c) : cx(c) {
    }
    void teardown() {
        for (auto *list : {&values, &pointees}) {
            for (auto *v : *list) {
                {
                    LibCall lc;
                    (*v)->~VT();
                }
                delete v;
            }
            list->clear();
        }
    }

    void add_value(const Op &op) {
        if (values.size() >= 4) return;
        U32 text = op.s.empty() ? U32() : unpack_units(op.s[0]);
        auto *v  = new ArenaObj<VT>();
        {
            ArenaText<C> buf(text);
            LibCall      lc;
            if (text.empty())
                new (v->p) VT();
            else
                new (v->p) VT(Qentem::JSON::Parse((const C *)buf.ptr, (SizeT)buf.len));
        }
        // removed members: the value a template meets may have holes
        uint64_t rm = (uint64_t)op.a[0];
        for (int k = 0; k < 2 && rm != 0; k++, rm /= 16) {
            uint64_t sel = rm % 16;
            if (sel == 0) continue;
            LibCall  lc;
            VT      &root = **v;
            if (root.IsObject() || root.IsArray()) {
                SizeT n = root.Size();
                if (n != 0) {
                    VT *child = root.GetValue((SizeT)(sel % n));
                    if (child != nullptr && (child->IsObject() || child->IsArray()) && child->Size() != 0 && (sel & 8))
                        child->RemoveIndex((SizeT)((sel / 2) % child->Size()));
                    else
                        root.RemoveIndex((SizeT)(sel % n));
                }
            }
        }
        make_pointer_members(**v, (uint64_t)op.a[1], pointees);
        values.push_back(v);
    }

    bool plain_text{false}, empty_cache_used{false};

    // one render into a fresh stream with the given prefix; returns the stream content
    bool render_once(int how, const C *content, SizeT length, const VT &value, Tags *cache, const U32 &prefix, U32 &out, TC *core = nullptr) {
        ArenaObj<Stm> stream;
        ArenaText<C>  pre(prefix);
        cx.renders++;
        {
            LibCall lc;
            new (stream.p) Stm();
            if (!prefix.empty()) stream->Write(pre.ptr, (SizeT)pre.len);
        }
        // everything alive now (the value, the template text, a parsed cache) is read-only for the render; only the
        // caller's stream may be written. A cache that is still empty is written by the first (parsing) call.
        qsim::mark_shared_ro_all();
        qsim::set_block_owner_task(stream.p, 0);
        qsim::set_block_owner_task(stream->Storage(), 0);
        // (a text without any '{' or '<' cannot start a tag: parsing it never touches the cache, so from the second call on
        // the still empty cache of such a text is as read-only as a filled one)
        if (how == 1 && cache->IsEmpty() && !(plain_text && empty_cache_used)) {
            qsim::set_block_owner_task(cache, 0);
            qsim::set_block_owner_task(cache->Storage(), 0);
        }
        if (how == 1) empty_cache_used = true;
        {
            LibCall lc;
            switch (how) {
                case 0: Qentem::Template::Render(content, length, value, *stream); break;
                case 1: Qentem::Template::Render(content, length, value, *stream, *cache); break;
                case 3: core->Render(*cache, value, *stream); break; // a long-lived TemplateCore object kept with its cache
                default: {
                    TC temp{content, length};
                    temp.Render(*cache, value, *stream);
                }
            }
        }
        qsim::clear_shared_ro_all();
        bool ok = read_units(stream->First(), stream->Length(), out, "render-stream");
        {
            LibCall lc;
            stream->~Stm();
        }
        if (!ok) {
            cx.failed = true;
            return false;
        }
        if (out.size() < prefix.size() || out.compare(0, prefix.size(), prefix) != 0) {
            cx.fail("stream-prefix", "render", "rendering disturbed what the caller's stream already held");
            return false;
        }
        return true;
    }

    void render(const Op &op) {
        if (values.empty()) return;
        U32 text = tmpl;
        for (auto &f : pending) {
            if (f.kind == F_COUNT) {
                // tag-level damage: what an editor slip or a lost line does to the markup itself
                static const char *closers[] = {"</loop>", "</if>", "<else>", "<else />", "}", "\"", "'", ">", "<loop", "<if", "{if", "{var:", "{math:", "{svar:", "{raw:"};
                static const char *repl[]    = {"", "</if>", "</loop>", "<else", "<elseif", "}", "}}", "{", "\"", "'", ">", ">>", "<", "</", "<loop", "<if case=", "{if", "{math:", "{svar:", "{var:", "]", "["};
                std::vector<std::pair<size_t, size_t>> hits;
                for (size_t k = 0; k < sizeof(closers) / sizeof(closers[0]); k++) {
                    U32 pat = A(closers[k]);
                    for (size_t at = text.find(pat); at != U32::npos; at = text.find(pat, at + 1)) hits.emplace_back(at, pat.size());
                }
                if (hits.empty()) continue;
                auto h = hits[(size_t)(f.pos % hits.size())];
                text.replace(h.first, h.second, A(repl[(size_t)(f.arg % (sizeof(repl) / sizeof(repl[0])))]));
                cx.faults_fired++;
                qsim::probe("render.fault.tag-level");
                continue;
            }
            if (apply_fault(text, f)) {
                cx.faults_fired++;
                qsim::probe((std::string("render.fault.") + fault_name[f.kind % F_COUNT]).c_str());
            }
        }
        pending.clear();
        if (has_long_exponent(text)) {
            long_exponent_policy();
            qsim::probe("render.long-exponent");
        }
        ArenaText<C> buf(text);
        const C     *content = buf.ptr;
        SizeT        length  = (SizeT)buf.len;
        int          variant = (int)((uint64_t)op.a[0] % 4);
        const VT    &v1      = **values[(uint64_t)op.a[1] % values.size()];
        const VT    &v2      = **values[(uint64_t)op.a[2] % values.size()];
        U32          prefix  = op.s.empty() ? U32() : unpack_units(op.s[0]);
        for (auto &c : prefix) c &= unit_mask<C>();
        U32 fresh1, fresh2;
        if (!render_once(0, content, length, v1, nullptr, prefix, fresh1)) return;
        qsim::obs(fresh1.size() * 2654435761ULL);
        for (char32_t c : fresh1) qsim::obs((uint64_t)c);
        if (variant == 0 || qsim::run_aborted()) return;
        if (!render_once(0, content, length, v2, nullptr, U32(), fresh2)) return;
        // repeated fresh render: identical
        {
            U32 again;
            if (!render_once(0, content, length, v1, nullptr, prefix, again)) return;
            if (again != fresh1) {
                cx.fail("output-diverge", "render:repeat", "two fresh renders of the same template and value differ");
                return;
            }
        }
        ArenaObj<Tags> cache;
        {
            LibCall lc;
            new (cache.p) Tags();
        }
        empty_cache_used = false;
        plain_text       = text.find(U'{') == U32::npos && text.find(U'<') == U32::npos;
        if (plain_text && variant == 1) qsim::probe("render.plain-text-through-empty-cache");
        U32 o1, o2, o3;
        bool ok = true;
        if (variant == 1) {
            // public cached entry point: first call parses, later calls reuse; different values and streams
            ok = render_once(1, content, length, v1, cache.p, prefix, o1) && render_once(1, content, length, v2, cache.p, U32(), o2) &&
                 render_once(1, content, length, v1, cache.p, prefix, o3);
            if (ok && (o1 != fresh1 || o2 != fresh2 || o3 != fresh1))
                cx.fail("output-diverge", "render:cached", "render through a reused tag cache differs from a fresh single render");
        } else {
            {
                LibCall lc;
                TC::Parse(content, length, *cache);
            }
            ok = render_once(2, content, length, v1, cache.p, prefix, o1) && render_once(2, content, length, v2, cache.p, U32(), o2);
            if (ok && (o1 != fresh1 || o2 != fresh2))
                cx.fail("output-diverge", "render:parsed-cache", "render through a parsed tag cache differs from a fresh single render");
            if (ok && !cx.failed) {
                // one TemplateCore object used for several renders while the value it is given lives at ONE address and is
                // replaced / updated in place between renders (what a server does with a per-request value slot)
                TC           core{content, length};
                ArenaObj<VT> slot;
                {
                    LibCall lc;
                    new (slot.p) VT(v1);
                }
                ok = render_once(3, content, length, *slot, cache.p, prefix, o3, &core);
                if (ok && o3 != fresh1) cx.fail("output-diverge", "render:same-core", "render through a reused TemplateCore object differs from a fresh single render");
                {
                    LibCall lc;
                    slot->~VT();
                    new (slot.p) VT(v2);
                }
                if (ok && !cx.failed) {
                    ok = render_once(3, content, length, *slot, cache.p, U32(), o3, &core);
                    if (ok && o3 != fresh2) cx.fail("output-diverge", "render:same-core-new-value", "second render of a reused TemplateCore object with another value at the same address differs from a fresh single render");
                }
                {
                    LibCall lc;
                    *slot = v1; // updated in place
                }
                if (ok && !cx.failed) {
                    ok = render_once(3, content, length, *slot, cache.p, prefix, o3, &core);
                    if (ok && o3 != fresh1) cx.fail("output-diverge", "render:same-core-updated-value", "render after an in-place update of the value differs from a fresh single render");
                }
                {
                    LibCall lc;
                    slot->~VT();
                }
                qsim::probe("render.same-core-reuse");
            }
            if (ok && !cx.failed && variant == 3) {
                // cache lifetimes: copy, destroy the original, render through the copy; move; clear and re-parse
                ArenaObj<Tags> copy, moved;
                {
                    LibCall lc;
                    new (copy.p) Tags(*cache);
                    cache->Reset();
                }
                ok = render_once(2, content, length, v2, copy.p, U32(), o3);
                if (ok && o3 != fresh2) cx.fail("output-diverge", "render:copied-cache", "render through a copied tag cache differs from a fresh single render");
                {
                    LibCall lc;
                    new (moved.p) Tags(static_cast<Tags &&>(*copy));
                    copy->~Tags();
                }
                if (ok && !cx.failed) {
                    ok = render_once(2, content, length, v1, moved.p, prefix, o3);
                    if (ok && o3 != fresh1) cx.fail("output-diverge", "render:moved-cache", "render through a moved tag cache differs from a fresh single render");
                }
                {
                    LibCall lc;
                    moved->Clear();
                    TC::Parse(content, length, *moved);
                }
                if (ok && !cx.failed) {
                    ok = render_once(2, content, length, v2, moved.p, U32(), o3);
                    if (ok && o3 != fresh2) cx.fail("output-diverge", "render:reparsed-cache", "render through a cleared and re-parsed tag cache differs from a fresh single render");
                }
                // a cache composed tag by tag from another one (element-level moves and swaps of tag records)
                if (ok && !cx.failed) {
                    ArenaObj<Tags> composed;
                    {
                        LibCall lc;
                        new (composed.p) Tags();
                        for (SizeT i = 0; i < moved->Size(); i++) *composed += static_cast<Qentem::Tags::TagBit &&>(moved->Storage()[i]);
                        moved->Reset();
                        if (composed->Size() >= 2) {
                            composed->Swap(composed->Storage()[0], composed->Storage()[1]);
                            composed->Swap(composed->Storage()[1], composed->Storage()[0]);
                        }
                    }
                    ok = render_once(2, content, length, v1, composed.p, prefix, o3);
                    if (ok && o3 != fresh1) cx.fail("output-diverge", "render:composed-cache", "render through a cache composed from moved tag records differs from a fresh single render");
                    {
                        LibCall lc;
                        composed->~Tags();
                    }
                }
                {
                    LibCall lc;
                    moved->~Tags();
                }
                qsim::probe("render.cache-lifetimes");
            }
        }
        {
            LibCall lc;
            cache->~Tags();
        }
    }

    void exec(const Op &op) {
        switch ((uint64_t)op.kind % R_COUNT) {
            case R_VALUE: add_value(op); break;
            case R_TEMPLATE:
                tmpl = op.s.empty() ? U32() : unpack_units(op.s[0]);
                for (auto &c : tmpl) c &= unit_mask<C>();
                pending.clear();
                break;
            case R_FAULT: {
                Fault f;
                f.kind = (int)((uint64_t)op.a[0] % (F_COUNT + 1));
                f.pos  = (uint64_t)op.a[1];
                f.arg  = (uint64_t)op.a[2];
                f.unit = (uint32_t)op.a[3] & unit_mask<C>();
                if (!op.s.empty()) f.other = unpack_units(op.s[0]);
                for (auto &c : f.other) c &= unit_mask<C>();
                pending.push_back(f);
                break;
            }
            case R_RENDER: render(op); break;
            default: break;
        }
    }
};

// ------------------------------------------------------------------------------------------------
// concurrent world
// ------------------------------------------------------------------------------------------------
template <typename C>
struct ConcW {
    using VT   = Qentem::Value<C>;
    using Stm  = Qentem::StringStream<C>;
    using Tags = Qentem::Array<Qentem::Tags::TagBit>;
    using TC   = Qentem::TemplateCore<C, VT, Stm>;
    struct TaskPlan {
        U32                            prefix;
        int                            slack{0};
        std::vector<std::pair<int, int>> renders; // (value index, how)
        ArenaObj<Stm>                 *stream{nullptr};
        U32                            expect;
    };
    Ctx                        &cx;
    std::vector<ArenaObj<VT> *> values;
    std::vector<ArenaObj<VT> *> pointees;
    std::vector<U32>            ref;
    ArenaText<C>                text;
    ArenaObj<Tags>              cache;
    std::vector<TaskPlan>       tasks;
    bool                        cache_empty{false};
    bool                        plain_text{false}; // no '{' and no '<': parsing it never touches the cache

    explicit ConcW(Ctx &c) : cx(c) {
    }

    void setup(Plan &plan) {
        int ntasks = (int)std::max<int64_t>(1, std::min<int64_t>(6, plan.get("tasks", 2)));
        tasks.resize((size_t)ntasks);
        U32 tmpl;
        for (auto &op : plan.ops) {
            switch ((uint64_t)op.kind % R_COUNT) {
                case R_VALUE: {
                    if (values.size() >= 4) break;
                    U32   vt = op.s.empty() ? U32() : unpack_units(op.s[0]);
                    auto *v  = new ArenaObj<VT>();
                    {
                        ArenaText<C> buf(vt);
                        LibCall      lc;
                        if (vt.empty())
                            new (v->p) VT();
                        else
                            new (v->p) VT(Qentem::JSON::Parse((const C *)buf.ptr, (SizeT)buf.len));
                    }
                    make_pointer_members(**v, (uint64_t)op.a[1], pointees);
                    values.push_back(v);
                    break;
                }
                case R_TEMPLATE:
                    tmpl = op.s.empty() ? U32() : unpack_units(op.s[0]);
                    for (auto &c : tmpl) c &= unit_mask<C>();
                    break;
                case R_TASK: {
                    TaskPlan &t = tasks[(uint64_t)op.a[0] % tasks.size()];
                    t.prefix    = op.s.empty() ? U32() : unpack_units(op.s[0]);
                    for (auto &c : t.prefix) c &= unit_mask<C>();
                    t.slack = (int)((uint64_t)op.a[1] % 3);
                    break;
                }
                case R_TASKRENDER: {
                    TaskPlan &t = tasks[(uint64_t)op.a[0] % tasks.size()];
                    if (t.renders.size() < 4) t.renders.emplace_back((int)((uint64_t)op.a[1] % 1024), (int)((uint64_t)op.a[2] % 2));
                    break;
                }
                default: break;
            }
        }
        if (values.empty()) {
            auto *v = new ArenaObj<VT>();
            {
                LibCall lc;
                new (v->p) VT();
            }
            values.push_back(v);
        }
        text.set(tmpl);
        if (has_long_exponent(tmpl)) long_exponent_policy();
        {
            LibCall lc;
            new (cache.p) Tags();
            TC::Parse((const C *)text.ptr, (SizeT)text.len, *cache);
        }
        cache_empty = cache->IsEmpty();
        plain_text  = tmpl.find(U'{') == U32::npos && tmpl.find(U'<') == U32::npos;
        if (cache_empty) qsim::probe("renderconc.cache-empty-after-parse");
        if (cache_empty && plain_text) qsim::probe("renderconc.plain-text-through-empty-cache");
        // references: a fresh single render per value (private cache), on this sequential control schedule
        uint64_t s0 = qsim::steps_now();
        for (auto *v : values) {
            ArenaObj<Stm> s;
            U32           out;
            {
                LibCall lc;
                new (s.p) Stm();
                Qentem::Template::Render((const C *)text.ptr, (SizeT)text.len, **v, *s);
            }
            if (!read_units(s->First(), s->Length(), out, "render-stream")) cx.failed = true;
            {
                LibCall lc;
                s->~Stm();
            }
            ref.push_back(out);
            for (char32_t c : out) qsim::obs((uint64_t)c);
        }
        uint64_t per_render = (qsim::steps_now() - s0) / (values.size() ? values.size() : 1);
        size_t   total      = 0;
        for (auto &t : tasks) {
            total += t.renders.size();
            t.stream = new ArenaObj<Stm>();
            {
                ArenaText<C> pre(t.prefix);
                LibCall      lc;
                if (t.slack == 0) {
                    new (t.stream->p) Stm(); // no storage yet
                    (*t.stream)->Write(pre.ptr, (SizeT)pre.len);
                } else if (t.slack == 1) {
                    new (t.stream->p) Stm((SizeT)t.prefix.size()); // exactly full (under exact-fit growth): first append grows
                    (*t.stream)->Write(pre.ptr, (SizeT)pre.len);
                } else {
                    new (t.stream->p) Stm((SizeT)(t.prefix.size() + 4096)); // slack capacity
                    (*t.stream)->Write(pre.ptr, (SizeT)pre.len);
                }
            }
            t.expect = t.prefix;
            for (auto &rr : t.renders) t.expect += ref[(size_t)rr.first % ref.size()];
        }
        plan.cfg["est_steps"] = (int64_t)std::max<uint64_t>(100, per_render * total);
    }

    void task_body(size_t ti) {
        TaskPlan &t = tasks[ti];
        for (auto &rr : t.renders) {
            const VT &v = **values[(size_t)rr.first % values.size()];
            LibCall   lc;
            // Template::Render(..., cache) parses whenever the cache is EMPTY; a template that yields no tags leaves it
            // empty after Parse, and re-parsing into the shared cache from several threads is outside "threads that
            // share the parsed tags" (DESIGN §4 C17): that entry point is used with a non-empty cache only.
            // A text without any '{' or '<' is the exception: its parse finds nothing and writes nothing, so the public
            // entry point is used for it even though the cache stays empty.
            if (rr.second == 0 || (cache_empty && !plain_text)) {
                TC temp{(const C *)text.ptr, (SizeT)text.len};
                temp.Render(*cache, v, **t.stream);
            } else {
                Qentem::Template::Render((const C *)text.ptr, (SizeT)text.len, v, **t.stream, *cache);
            }
        }
    }

    void verify_and_teardown(uint64_t digest_before, uint64_t digest_after) {
        if (!qsim::run_aborted()) {
            if (digest_before != digest_after)
                cx.fail("digest-changed", "renderconc", "value / tag cache / template bytes changed during rendering");
            for (size_t ti = 0; ti < tasks.size() && !cx.failed; ti++) {
                U32 out;
                if (!read_units((*tasks[ti].stream)->First(), (*tasks[ti].stream)->Length(), out, "render-stream")) {
                    cx.failed = true;
                    break;
                }
                if (out != tasks[ti].expect) {
                    size_t d = 0;
                    while (d < out.size() && d < tasks[ti].expect.size() && out[d] == tasks[ti].expect[d]) d++;
                    cx.fail("output-diverge", "renderconc", "task " + std::to_string(ti) + ": concurrent render output differs from prefix + fresh single renders at unit " +
                                                                std::to_string(d) + " (got " + std::to_string(out.size()) + " units, expected " +
                                                                std::to_string(tasks[ti].expect.size()) + ")");
                }
            }
        }
        for (auto &t : tasks) {
            if (t.stream) {
                {
                    LibCall lc;
                    (*t.stream)->~Stm();
                }
                delete t.stream;
            }
        }
        {
            LibCall lc;
            cache->~Tags();
        }
        for (auto *list : {&values, &pointees}) {
            for (auto *v : *list) {
                {
                    LibCall lc;
                    (*v)->~VT();
                }
                delete v;
            }
        }
        text.reset();
    }
};

// ------------------------------------------------------------------------------------------------
// generation
// ------------------------------------------------------------------------------------------------
// twelve two-letter keys that share the low four bits of the library's hash: one chain in a table of up to 16 buckets
static void fill_colliding_keys() {
    if (!colliding_keys().empty()) return;
    std::map<uint32_t, std::vector<std::string>> by;
    for (char a = 'a'; a <= 'z'; a++)
        for (char b = '0'; b <= '9'; b++) {
            char     k[2] = {a, b};
            uint32_t h    = (uint32_t)Qentem::StringUtils::Hash((const char *)k, (SizeT)2);
            by[h & 0xFFu].push_back(std::string(k, 2));
        }
    const std::vector<std::string> *best = nullptr;
    for (auto &kv : by)
        if (best == nullptr || kv.second.size() > best->size()) best = &kv.second;
    if (best != nullptr && best->size() >= 9) {
        colliding_keys() = *best;
        if (colliding_keys().size() > 14) colliding_keys().resize(14);
    }
}

static void gen_values_and_template(Plan &plan, Rng &cfg, Rng &ops, bool &root_array, U32 &tmpl_out, int tier, bool conc) {
    fill_colliding_keys();
    root_array = cfg.chance(1, 4);
    size_t nv  = 1 + (size_t)cfg.below(3);
    for (size_t i = 0; i < nv; i++) {
        ValueGen vg(ops);
        Op       op;
        op.kind = R_VALUE;
        if (!conc && cfg.chance(1, 10)) {
            op.s.push_back(pack_units(U32())); // Undefined value
        } else {
            bool arr = (!conc && cfg.chance(1, 8)) ? !root_array : root_array; // sometimes the wrong container kind
            Node n   = vg.root(arr);
            U32  js;
            to_json(n, js);
            op.s.push_back(pack_units(js));
            if (!conc && cfg.chance(1, 3)) op.a[0] = (int64_t)ops.below(256);
            if (cfg.chance(1, 4)) op.a[1] = (int64_t)ops.below(256); // some members become pointers to values held elsewhere
        }
        plan.ops.push_back(op);
    }
    TemplateGen tg(ops, root_array, 1 + (size_t)cfg.below(tier ? 30 : 16));
    std::string t = tg.document(3);
    if (t.size() > 70000 + 4096) t.resize(70000 + 4096);
    tmpl_out = A(t);
    Op top;
    top.kind = R_TEMPLATE;
    top.s.push_back(pack_units(tmpl_out));
    plan.ops.push_back(top);
}

static void generate(Plan &plan, uint64_t seed, int tier) {
    Rng cfg(qsim::derive(seed, "cfg")), ops(qsim::derive(seed, "ops")), flt(qsim::derive(seed, "faults"));
    gen_heap_cfg(plan, cfg);
    static const int widths[] = {1, 2, 4, 8};
    plan.cfg["width"]   = widths[cfg.below(4)];
    int  width          = (int)plan.cfg["width"] == 8 ? 4 : (int)plan.cfg["width"];
    bool faulted        = cfg.chance(4, 5);
    plan.cfg["faulted"] = faulted;
    // up to a dozen renders of templates with hundreds of nested tags inside loops: a budget of 10^9 steps is still
    // orders of magnitude above the costliest of them and ends a real endless loop within seconds
    plan.cfg["step_budget"] = 1000000000LL;
    bool root_array;
    U32  tmpl;
    gen_values_and_template(plan, cfg, ops, root_array, tmpl, tier, false);
    U32 other;
    {
        TemplateGen tg2(ops, root_array, 4);
        other = A(tg2.block(2)); // never one of the very deep documents: joined to open loops it multiplies their cost
    }
    // a very deep document costs ~10^5 steps per traversal and damage can wrap it in a few more loops over the
    // root: no fixed step count separates that from an endless loop, so past the budget these runs are given up
    // (abandoned, not reported) and the bounded-work oracle stays with the ordinary documents
    if (tmpl.size() > 4000) plan.cfg["soft_budget"] = 1;
    size_t renders = 1 + (size_t)cfg.below(3);
    for (size_t k = 0; k < renders; k++) {
        if (faulted) {
            size_t nf = 1;
            if (flt.chance(1, 3)) nf = 2 + (size_t)flt.below(3);
            for (size_t f = 0; f < nf; f++) {
                Op op;
                op.kind = R_FAULT;
                static const int kinds[] = {F_TRUNCATE, F_TRUNCATE, F_FLIP, F_FLIP, F_FLIP, F_DROP, F_DROP, F_DUP, F_SWAP, F_CONCAT, F_STALE_TAIL, F_INSERT, F_INSERT, F_COUNT, F_COUNT, F_COUNT};
                op.a[0] = kinds[flt.below(sizeof(kinds) / sizeof(int))];
                std::vector<size_t> b = template_boundaries(tmpl);
                if (!b.empty() && flt.chance(2, 3))
                    op.a[1] = (int64_t)b[flt.below(b.size())];
                else
                    op.a[1] = (int64_t)flt.below(tmpl.size() + 1);
                op.a[2] = (int64_t)flt.below(64);
                op.a[3] = (int64_t)fault_unit(flt, width);
                op.s.push_back(pack_units(other));
                plan.ops.push_back(op);
            }
        }
        Op rop;
        rop.kind = R_RENDER;
        rop.a[0] = (int64_t)ops.below(4);
        rop.a[1] = (int64_t)ops.below(4);
        rop.a[2] = (int64_t)ops.below(4);
        rop.s.push_back(pack_units(ops.chance(1, 2) ? U32() : A("<<prefix>>")));
        plan.ops.push_back(rop);
    }
}

static void generate_conc(Plan &plan, uint64_t seed, int tier) {
    Rng cfg(qsim::derive(seed, "cfg")), ops(qsim::derive(seed, "ops"));
    gen_heap_cfg(plan, cfg);
    static const int widths[] = {1, 1, 2, 4};
    plan.cfg["width"] = widths[cfg.below(4)];
    int ntasks        = 2 + (int)cfg.below(5);
    plan.cfg["tasks"] = ntasks;
    plan.cfg["sched"] = (int64_t)(cfg.below(10) < 1 ? 0 : 1 + cfg.below(3));
    static const int slices[] = {3, 30, 300, 3000};
    plan.cfg["slice"] = slices[cfg.below(4)];
    plan.cfg["pct_d"] = (int64_t)(1 + cfg.below(3));
    plan.cfg["step_budget"] = 1000000000LL;
    bool root_array;
    U32  tmpl;
    gen_values_and_template(plan, cfg, ops, root_array, tmpl, tier, true);
    for (int t = 0; t < ntasks; t++) {
        Op top;
        top.kind = R_TASK;
        top.a[0] = t;
        top.a[1] = (int64_t)ops.below(3);
        top.s.push_back(pack_units(ops.chance(1, 2) ? U32() : A("task" + std::to_string(t) + ":")));
        plan.ops.push_back(top);
        size_t k = 1 + (size_t)ops.below(4);
        for (size_t i = 0; i < k; i++) {
            Op rop;
            rop.kind = R_TASKRENDER;
            rop.a[0] = t;
            rop.a[1] = (int64_t)ops.below(4);
            rop.a[2] = (int64_t)ops.below(2);
            plan.ops.push_back(rop);
        }
    }
}

template <typename C>
static void drive(Plan &plan, Ctx &cx) {
    RenderW<C> w(cx);
    for (auto &op : plan.ops) {
        if (cx.failed || qsim::run_aborted()) break;
        w.exec(op);
    }
    w.teardown();
}

static bool execute(Plan &plan) {
    Ctx cx;
    int w    = (int)plan.get("width", 1);
    cx.width = w == 8 ? 4 : w;
    qsim::run_single(
        [&]() {
            if (w == 1)
                drive<char>(plan, cx);
            else if (w == 2)
                drive<char16_t>(plan, cx);
            else if (w == 4)
                drive<char32_t>(plan, cx);
            else
                drive<wchar_t>(plan, cx);
            if (!qsim::run_aborted()) qsim::check_leaks("render");
        },
        8 << 20); // what a default Linux thread has: rendering recurses once per nesting level of the template
    return cx.renders >= 1 && (cx.faults_fired > 0 || cx.renders >= 3);
}

template <typename C>
static bool run_conc(Plan &plan, Ctx &cx) {
    ConcW<C> *w = new ConcW<C>(cx);
    qsim::run_single([&]() { w->setup(plan); }, 8 << 20);
    if (qsim::run_aborted() || cx.failed) return false; // (objects abandoned: the run is over)
    // everything alive now is shared read-only, except each task's own stream
    qsim::mark_shared_ro_all();
    for (size_t ti = 0; ti < w->tasks.size(); ti++) {
        qsim::set_block_owner_task(w->tasks[ti].stream->p, (int)ti);
        qsim::set_block_owner_task((*w->tasks[ti].stream)->Storage(), (int)ti);
    }
    uint64_t                    before = qsim::digest_shared();
    std::vector<qsim::TaskSpec> specs;
    for (size_t ti = 0; ti < w->tasks.size(); ti++) {
        qsim::TaskSpec s;
        s.fn          = [w, ti]() { w->task_body(ti); };
        s.stack_bytes = 8 << 20;
        specs.push_back(s);
    }
    qsim::run_tasks(specs, plan);
    uint64_t after = qsim::digest_shared();
    qsim::clear_shared_ro_all();
    bool aborted = qsim::run_aborted();
    if (!aborted) {
        qsim::run_single(
            [&]() {
                w->verify_and_teardown(before, after);
                if (!qsim::run_aborted()) qsim::check_leaks("renderconc");
            },
            1 << 20);
        delete w;
    }
    return true;
}

static bool execute_conc(Plan &plan) {
    Ctx cx;
    int w    = (int)plan.get("width", 1);
    cx.width = w;
    if (w == 1) return run_conc<char>(plan, cx);
    if (w == 2) return run_conc<char16_t>(plan, cx);
    return run_conc<char32_t>(plan, cx);
}

static const char *props(const std::string &cls) {
    if (cls == "leak") return "C16";
    if (cls == "output-diverge" || cls == "stream-prefix" || cls == "digest-changed" || cls == "purity-store" || cls == "race" ||
        cls == "foreign" || cls == "deadlock")
        return "C17";
    if (cls == "uaf-read" || cls == "uaf-write" || cls == "double-free" || cls == "bad-free") return "C01,C16";
    return "C01";
}
static const char *props_conc(const std::string &cls) {
    if (cls == "leak") return "C16";
    if (cls == "uaf-read" || cls == "uaf-write" || cls == "double-free" || cls == "bad-free") return "C17,C16";
    return "C17";
}

static const qsim::World world      = {"render", generate, execute, props};
static const qsim::World world_conc = {"renderconc", generate_conc, execute_conc, props_conc};
QSIM_REGISTER_WORLD(world)
QSIM_REGISTER_WORLD(world_conc)

} // namespace renderw
} // namespace qw
QH_END
