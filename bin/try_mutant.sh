#!/bin/sh
# usage: try_mutant.sh <patch.diff> <property> [tier]   -- applies the patch to /repo, runs the check, reverts (development helper)
set -u
P="$1"; PROP="$2"; TIER="${3:-quick}"
git -C /repo diff --quiet || { echo "/repo has local changes"; exit 2; }
git -C /repo apply "$P" || { echo "patch does not apply"; exit 2; }
/verif/bin/qcheck run "$PROP" --tier "$TIER"; RC=$?
git -C /repo checkout -- .
echo "== mutant $(basename $(dirname $P)) on $PROP: exit $RC"
exit $RC
