#!/usr/bin/env python3
"""confirm_seed.py <worktree> <seed-id> <property> [<extra property> ...]

Independently confirms a seeded breaking change produced in a scratch worktree (tests pass with it, the
demonstration fails with it and passes without it), stores it under /verif/seeded/<seed-id>/ and runs the named
checks against it (applied to /repo, reverted straight afterwards). Development helper; never used by checks.
"""
import json
import os
import shutil
import subprocess
import sys
import time

wt, sid, props = sys.argv[1], sys.argv[2], sys.argv[3:]
VERIF = "/verif"


def sh(cmd, cwd=None, timeout=1800):
    r = subprocess.run(cmd, shell=True, cwd=cwd, stdout=subprocess.PIPE, stderr=subprocess.STDOUT, text=True, timeout=timeout)
    return r.returncode, r.stdout


patch = os.path.join(wt, "mutant.diff")
demo = os.path.join(wt, "demo.cpp")
assert os.path.exists(patch) and os.path.exists(demo), "mutant.diff / demo.cpp missing"
notes = open(os.path.join(wt, "NOTES.md")).read() if os.path.exists(os.path.join(wt, "NOTES.md")) else ""
ran = []

# 1. the change is exactly the patch
sh("git checkout -- Include", wt)
rc, out = sh("git apply mutant.diff", wt)
assert rc == 0, "patch does not apply: " + out

# 2. existing tests pass with the change
bdir = os.path.join(wt, "_confirm")
shutil.rmtree(bdir, ignore_errors=True)
rc, out = sh("cmake -G Ninja -S . -B _confirm -DCMAKE_BUILD_TYPE=RelWithDebInfo >/dev/null && cmake --build _confirm -j16 >/dev/null 2>&1 && ctest --test-dir _confirm -j8 2>&1 | tail -4", wt)
tests_ok = "100% tests passed" in out
ran.append({"cmd": "cmake+ctest with the change", "result": out.strip().splitlines()[-3:] if out.strip() else []})
shutil.rmtree(bdir, ignore_errors=True)

# 3. demo fails with the change, passes without
flags = "-std=c++17 -g -fsanitize=address,undefined -fno-sanitize-recover=all -I Include"
if os.environ.get("CONFIRM_FLAGS") == "asan":
    pass
elif os.environ.get("CONFIRM_FLAGS") == "tsan" or ("fsanitize=thread" in notes and "pthread" in notes):
    flags = "-std=c++17 -g -fsanitize=thread -I Include"
extra = " -DQENTEM_SSE2=1 -msse2" if "QENTEM_SSE2" in notes else ""
env = "ASAN_OPTIONS=detect_leaks=1 "
compile_cmd = "g++ %s%s demo.cpp -o demo_confirm -lpthread" % (flags, extra)
rc, out = sh(compile_cmd, wt)
assert rc == 0, "demo does not compile: " + out[-2000:]
with_rc, with_out = None, ""
for attempt in range(3):  # threaded demos may need more than one try
    with_rc, with_out = sh(env + "timeout 300 ./demo_confirm", wt)
    if with_rc != 0:
        break
sh("git checkout -- Include", wt)
rc, out = sh(compile_cmd, wt)
assert rc == 0
without_rc, without_out = sh(env + "timeout 300 ./demo_confirm", wt)
sh("git apply mutant.diff", wt)
os.unlink(os.path.join(wt, "demo_confirm"))
ran.append({"cmd": compile_cmd + " && ./demo", "with_change_exit": with_rc, "with_change_tail": with_out.strip().splitlines()[-4:],
            "without_change_exit": without_rc, "without_change_tail": without_out.strip().splitlines()[-2:]})
demo_ok = (with_rc != 0) and (without_rc == 0)
print("tests pass with change:", tests_ok, "| demo fails with:", with_rc != 0, "| demo passes without:", without_rc == 0)
if not (tests_ok and demo_ok):
    print("NOT CONFIRMED; nothing stored")
    print(json.dumps(ran, indent=1)[:3000])
    sys.exit(1)

# 4. store
dst = os.path.join(VERIF, "seeded", sid)
os.makedirs(dst, exist_ok=True)
shutil.copy(patch, os.path.join(dst, "patch.diff"))
shutil.copy(demo, os.path.join(dst, "demo.cpp"))
if notes:
    open(os.path.join(dst, "NOTES.md"), "w").write(notes)

# 5. run the checks against it
results = {}
for prop in props:
    t0 = time.time()
    rc, out = sh("/verif/bin/try_mutant.sh %s %s quick" % (os.path.join(dst, "patch.diff"), prop), VERIF, timeout=3600)
    sigs = [l.strip() for l in out.splitlines() if l.strip().startswith("signature:")]
    results[prop] = {"exit": rc, "caught": rc == 1, "signatures": sigs[:6], "wall_s": round(time.time() - t0, 1),
                     "tail": [l for l in out.strip().splitlines() if l.startswith(("VIOLATION", "qcheck:", "OK "))][:6]}
    print(prop, "->", "CAUGHT" if rc == 1 else ("exit %d" % rc), sigs[:2])
for f in os.listdir(os.path.join(VERIF, "replays")):
    pass
meta = {"seed_id": sid, "breaks_property": props[0], "also_run_against": props[1:], "origin": "independent sub-agent given only the property text and a scratch worktree",
        "needs_to_manifest": notes[:1500], "confirmed": {"tests_pass_with_change": tests_ok, "demo_fails_with_change": with_rc != 0, "demo_passes_without_change": without_rc == 0},
        "what_i_ran": ran, "check_results": results}
json.dump(meta, open(os.path.join(dst, "meta.json"), "w"), indent=1)
print("stored", dst)
