#!/usr/bin/env python3
"""mkplan.py <world> <width> <template> [<json value>]  -> plan text on stdout (development helper)"""
import sys
def pack(s):
    return "".join(ord(c).to_bytes(4, "little").hex() for c in s) or "-"
world, width, tmpl = sys.argv[1], sys.argv[2], sys.argv[3]
val = sys.argv[4] if len(sys.argv) > 4 else ""
print("world", world); print("seed 1"); print("cfg width", width); print("cfg heap_fill 0"); print("cfg heap_place 0"); print("cfg exact_fit 1")
if world == "render":
    print("op 0 0 0 0 0 0 0 1", pack(val))
    print("op 1 0 0 0 0 0 0 1", pack(tmpl))
    print("op 3 %s 0 0 0 0 0 1 -" % (sys.argv[5] if len(sys.argv) > 5 else "0"))
elif world == "json":
    print("cfg mode 1")
    print("op 0 0 0 0 0 0 0 1", pack(tmpl))
    print("op 2 0 0 0 0 0 0 1 -")
print("end")
