#!/usr/bin/env python3
"""seed_matrix.py: re-runs, for every seeded change under /verif/seeded, the checks named in its meta.json
(patch applied to /repo, reverted straight afterwards) and rewrites meta.json's check_results. Development helper."""
import json, os, subprocess, sys, time
root = "/verif/seeded"
only = sys.argv[1:]
rows = []
for sid in sorted(os.listdir(root)):
    if only and sid not in only:
        continue
    mp = os.path.join(root, sid, "meta.json")
    meta = json.load(open(mp))
    if meta.get("retired"):
        print("%-40s retired" % sid, flush=True)
        continue
    props = [meta["breaks_property"]] + ([] if os.environ.get("MATRIX_PRIMARY_ONLY") else meta.get("also_run_against", []))
    res = {}
    for prop in props:
        t0 = time.time()
        env = dict(os.environ, VERIF_MAX_VIOLATIONS="1", VERIF_SHRINK_S="15", VERIF_NO_EVIDENCE="1")
        r = subprocess.run(["/verif/bin/try_mutant.sh", os.path.join(root, sid, "patch.diff"), prop, "quick"], stdout=subprocess.PIPE, stderr=subprocess.STDOUT, text=True, env=env)
        sigs = [l.strip()[len("signature: "):] for l in r.stdout.splitlines() if l.strip().startswith("signature:")]
        res[prop] = {"exit": r.returncode, "caught": r.returncode == 1, "signatures": sigs[:6], "wall_s": round(time.time() - t0, 1)}
        print("%-40s %-4s %s %s" % (sid, prop, "CAUGHT" if r.returncode == 1 else "exit %d" % r.returncode, sigs[:1]), flush=True)
    if os.environ.get("MATRIX_PRIMARY_ONLY"):
        old = meta.get("check_results", {})
        old.update(res)
        res = old
    meta["check_results"] = res
    json.dump(meta, open(mp, "w"), indent=1)
