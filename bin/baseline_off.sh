#!/bin/sh
# Builds and runs the repository's own test suite with the verification guard OFF
# (no -DQENTEM_VERIF_SIM), in a scratch directory that is removed afterwards.
set -e
D=$(mktemp -d "${TMPDIR:-/tmp}/qbaseline.XXXXXX")
trap 'rm -rf "$D"' EXIT
cmake -G Ninja -S /repo -B "$D" -DCMAKE_BUILD_TYPE=RelWithDebInfo >"$D/cmake.log" 2>&1 || { cat "$D/cmake.log"; exit 2; }
cmake --build "$D" -j16 >"$D/build.log" 2>&1 || { tail -50 "$D/build.log"; exit 2; }
ctest --test-dir "$D" -j8 --timeout 900
